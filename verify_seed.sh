#!/bin/bash
# usage: verify_seed.sh <worktree> <seed_dir> <crate> <demo_test_name>
# (optional env: DEMO_RUSTFLAGS, DEMO_ARGS - e.g. '-C target-feature=+avx2,+fma' and '--features enable-avx' for AVX-only demos)
# Confirms a seeded change independently: (1) demo passes on the clean tree, (2) with the patch the
# workspace's existing tests still pass, (3) the demo fails with the patch. Writes <seed_dir>/verify.log.
wt="$1"; sd="$2"; crate="$3"; name="$4"
log="$sd/verify.log"; : > "$log"
cd "$wt" || exit 2
git checkout -q -- . ; git clean -fdq -e seed_out -e target
mkdir -p "$crate/tests"; cp "$sd/demo.rs" "$crate/tests/$name.rs"
echo "== demo on clean tree" >> "$log"
RUSTFLAGS="$DEMO_RUSTFLAGS" cargo test -p "$crate" --offline $DEMO_ARGS --test "$name" >> "$log" 2>&1; a=$?
echo "exit=$a" >> "$log"
git apply "$sd/patch.diff" || { echo "patch does not apply" >> "$log"; exit 2; }
echo "== demo with patch" >> "$log"
RUSTFLAGS="$DEMO_RUSTFLAGS" cargo test -p "$crate" --offline $DEMO_ARGS --test "$name" >> "$log" 2>&1; b=$?
echo "exit=$b" >> "$log"
rm -f "$crate/tests/$name.rs"
echo "== existing suite with patch" >> "$log"
cargo test --workspace --no-fail-fast --offline 2>&1 | grep -E "^test result|FAILED|failed" >> "$log"; 
pass=$(sed -n '/== existing suite/,$p' "$log" | grep -E "^test result" | awk '{p+=$4; f+=$6} END {print p" passed "f" failed"}')
echo "suite: $pass" >> "$log"
git checkout -q -- . ; git clean -fdq -e seed_out -e target
echo "SUMMARY clean_demo_exit=$a patched_demo_exit=$b suite=[$pass]" | tee -a "$log"
