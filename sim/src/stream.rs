//! S1: stream endpoints handed to the real `write_to` / `read_from`.
use crate::prng::Rng;
use std::io::{self, Read, Write};

#[derive(Clone, Debug, Default, PartialEq)]
pub struct Faults {
    /// seed of the benign-fault coin flips (per call)
    pub seed: u64,
    /// probability (permille) that a call is served short
    pub short_pm: u32,
    /// probability (permille) that a call returns ErrorKind::Interrupted first
    pub eintr_pm: u32,
    /// hard error once this many bytes were transferred
    pub err_at: Option<usize>,
    /// writer only: `Ok(0)` once this many bytes were accepted
    pub zero_at: Option<usize>,
}

impl Faults {
    pub fn none() -> Self {
        Self::default()
    }
    pub fn is_benign(&self) -> bool {
        self.err_at.is_none() && self.zero_at.is_none()
    }
    pub fn is_none(&self) -> bool {
        self.is_benign() && self.short_pm == 0 && self.eintr_pm == 0
    }
}

#[derive(Clone, Debug, Default)]
pub struct Fired {
    pub short: u64,
    pub eintr: u64,
    pub hard_err: u64,
    pub write_zero: u64,
    pub eof: u64,
    pub calls: u64,
}

pub struct SimReader<'a> {
    data: &'a [u8],
    pub pos: usize,
    f: Faults,
    rng: Rng,
    pub fired: Fired,
    pending_eintr: bool,
}

impl<'a> SimReader<'a> {
    pub fn new(data: &'a [u8], f: &Faults) -> Self {
        SimReader {
            data,
            pos: 0,
            f: f.clone(),
            rng: Rng::new(f.seed ^ 0x5eed_0001),
            fired: Fired::default(),
            pending_eintr: true,
        }
    }
}

impl Read for SimReader<'_> {
    fn read(&mut self, out: &mut [u8]) -> io::Result<usize> {
        self.fired.calls += 1;
        if out.is_empty() {
            return Ok(0);
        }
        if let Some(e) = self.f.err_at
            && self.pos >= e
        {
            self.fired.hard_err += 1;
            return Err(io::Error::other("sim: injected read error"));
        }
        if self.f.eintr_pm > 0 && self.pending_eintr && self.rng.chance(self.f.eintr_pm as u64) {
            self.pending_eintr = false; // at most one EINTR in a row
            self.fired.eintr += 1;
            return Err(io::Error::new(io::ErrorKind::Interrupted, "sim: EINTR"));
        }
        self.pending_eintr = true;
        let mut n = out.len().min(self.data.len() - self.pos);
        if n == 0 {
            self.fired.eof += 1;
            return Ok(0);
        }
        if let Some(e) = self.f.err_at {
            n = n.min(e - self.pos);
        }
        if self.f.short_pm > 0 && n > 1 && self.rng.chance(self.f.short_pm as u64) {
            n = 1 + self.rng.below(n as u64 - 1) as usize;
            self.fired.short += 1;
        }
        out[..n].copy_from_slice(&self.data[self.pos..self.pos + n]);
        self.pos += n;
        Ok(n)
    }
}

pub struct SimWriter {
    pub buf: Vec<u8>,
    f: Faults,
    rng: Rng,
    pub fired: Fired,
    pending_eintr: bool,
}

impl SimWriter {
    pub fn new(f: &Faults) -> Self {
        SimWriter {
            buf: Vec::new(),
            f: f.clone(),
            rng: Rng::new(f.seed ^ 0x5eed_0002),
            fired: Fired::default(),
            pending_eintr: true,
        }
    }
}

impl Write for SimWriter {
    fn write(&mut self, data: &[u8]) -> io::Result<usize> {
        self.fired.calls += 1;
        if data.is_empty() {
            return Ok(0);
        }
        if let Some(e) = self.f.err_at
            && self.buf.len() >= e
        {
            self.fired.hard_err += 1;
            return Err(io::Error::other("sim: injected write error"));
        }
        if let Some(z) = self.f.zero_at
            && self.buf.len() >= z
        {
            self.fired.write_zero += 1;
            return Ok(0);
        }
        if self.f.eintr_pm > 0 && self.pending_eintr && self.rng.chance(self.f.eintr_pm as u64) {
            self.pending_eintr = false;
            self.fired.eintr += 1;
            return Err(io::Error::new(io::ErrorKind::Interrupted, "sim: EINTR"));
        }
        self.pending_eintr = true;
        let mut n = data.len();
        if let Some(e) = self.f.err_at {
            n = n.min(e - self.buf.len());
        }
        if let Some(z) = self.f.zero_at {
            n = n.min(z - self.buf.len());
        }
        if self.f.short_pm > 0 && n > 1 && self.rng.chance(self.f.short_pm as u64) {
            n = 1 + self.rng.below(n as u64 - 1) as usize;
            self.fired.short += 1;
        }
        self.buf.extend_from_slice(&data[..n]);
        Ok(n)
    }
    fn flush(&mut self) -> io::Result<()> {
        Ok(())
    }
}
