//! The single source of randomness of the simulator: SplitMix64 seeding a xoshiro256**.
#[derive(Clone, Debug)]
pub struct Rng {
    s: [u64; 4],
}

pub fn splitmix(x: &mut u64) -> u64 {
    *x = x.wrapping_add(0x9E37_79B9_7F4A_7C15);
    let mut z = *x;
    z = (z ^ (z >> 30)).wrapping_mul(0xBF58_476D_1CE4_E5B9);
    z = (z ^ (z >> 27)).wrapping_mul(0x94D0_49BB_1331_11EB);
    z ^ (z >> 31)
}

/// Mixes (seed, stream, index) into a run seed.
pub fn mix(seed: u64, stream: u64, idx: u64) -> u64 {
    let mut x = seed ^ stream.wrapping_mul(0xD6E8_FEB8_6659_FD93);
    let a = splitmix(&mut x);
    let mut y = a ^ idx.wrapping_mul(0xA076_1D64_78BD_642F);
    splitmix(&mut y)
}

impl Rng {
    pub fn new(seed: u64) -> Self {
        let mut x = seed;
        let s = [splitmix(&mut x), splitmix(&mut x), splitmix(&mut x), splitmix(&mut x)];
        Rng { s }
    }
    pub fn next(&mut self) -> u64 {
        let r = self.s[1].wrapping_mul(5).rotate_left(7).wrapping_mul(9);
        let t = self.s[1] << 17;
        self.s[2] ^= self.s[0];
        self.s[3] ^= self.s[1];
        self.s[1] ^= self.s[2];
        self.s[0] ^= self.s[3];
        self.s[2] ^= t;
        self.s[3] = self.s[3].rotate_left(45);
        r
    }
    /// Uniform in [0, n). n must be > 0.
    pub fn below(&mut self, n: u64) -> u64 {
        debug_assert!(n > 0);
        ((self.next() as u128 * n as u128) >> 64) as u64
    }
    pub fn range(&mut self, lo: u64, hi_incl: u64) -> u64 {
        lo + self.below(hi_incl - lo + 1)
    }
    pub fn chance(&mut self, permille: u64) -> bool {
        self.below(1000) < permille
    }
    pub fn pick<'a, T>(&mut self, v: &'a [T]) -> &'a T {
        &v[self.below(v.len() as u64) as usize]
    }
    pub fn fill(&mut self, out: &mut [u8]) {
        for c in out.chunks_mut(8) {
            let b = self.next().to_le_bytes();
            c.copy_from_slice(&b[..c.len()]);
        }
    }
    pub fn seed32(&mut self) -> [u8; 32] {
        let mut s = [0u8; 32];
        self.fill(&mut s);
        s
    }
}
