//! poulpy-sim: deterministic simulation with fault injection for poulpy (see /verif/DESIGN.md).
mod alloc;
mod c12;
mod c18;
mod c20;
mod driver;
mod fhe;
mod sched;
mod prng;
mod stream;
mod util;

use driver::{CheckImpl, Tier};

#[global_allocator]
static GLOBAL: alloc::SimAlloc = alloc::SimAlloc;

fn checks() -> Vec<Box<dyn CheckImpl>> {
    vec![Box::new(c12::C12), Box::new(c18::C18), Box::new(c20::C20)]
}

fn main() {
    let args: Vec<String> = std::env::args().collect();
    if args.len() < 2 {
        eprintln!("usage: poulpy-sim check <C12|C18|C20> [--tier quick|thorough] | replay <file> | worker ...");
        std::process::exit(2);
    }
    let mut all = checks();
    match args[1].as_str() {
        "check" => {
            let prop = args.get(2).map(|s| s.as_str()).unwrap_or("");
            let mut tier = std::env::var("VERIF_TIER").ok().map(|t| Tier::parse(&t)).unwrap_or(Tier::Quick);
            if let Some(i) = args.iter().position(|a| a == "--tier") {
                tier = Tier::parse(&args[i + 1]);
            }
            let Some(c) = all.iter_mut().find(|c| c.id() == prop) else {
                driver::harness_error(&format!("unknown property {prop}"));
            };
            driver::check_main(c.as_mut(), tier);
        }
        "worker" => {
            let prop = args[2].clone();
            let Some(c) = all.iter_mut().find(|c| c.id() == prop) else {
                driver::harness_error(&format!("unknown property {prop}"));
            };
            driver::worker_main(c.as_mut(), &args[3..]);
        }
        "replay" => driver::replay_main(&mut all, &args[2]),
        "c12-sweep" => c12::sweep(&args[2], &args[3], args[4].parse().unwrap()),
        "miri" => c20::miri_main(&args[2..]),
        "miri-c18" => c18::miri_main(&args[2..]),
        _ => driver::harness_error("unknown command"),
    }
}
