//! Reference model of the wire format (DESIGN appendix A): an independent decoder written
//! from the grammar, not from the readers' control flow.
//!
//! `parse(schema, bytes, recv)` walks a byte string and answers
//!  * which fields/units it contains (offsets, widths, values),
//!  * whether any reader MUST reject it (`MustErr`) given the receiver description `recv`.
use std::collections::BTreeMap;

#[derive(Clone, Debug)]
pub enum Sch {
    U32(&'static str),
    U64(&'static str),
    Dist,
    Seed32,
    SeedVec,
    Scalar,
    Vec,
    Mat,
    Seq(Vec<Sch>),
    /// One atomic unit: wrapper scalars + exactly one buffer.
    Unit(&'static str, Box<Sch>),
    /// u64 count followed by `count` items; units inside are keyed `name[i]`.
    Rep(&'static str, Box<Sch>),
    /// u64 n followed by n x (i64 gal, item); units inside are keyed `atk[gal]`.
    AtkMap(Box<Sch>),
    /// u8 tag (0/1) followed by the item when 1.
    Opt(&'static str, Box<Sch>),
}

#[derive(Clone, Copy, Debug, PartialEq, Eq)]
pub enum Role {
    Scalar32,
    Scalar64,
    DistWord,
    SeedLen,
    Dim,
    MaxSize,
    Len,
    Count,
    Gal,
    Tag,
}

#[derive(Clone, Debug)]
pub struct Field {
    pub off: usize,
    pub width: usize,
    pub role: Role,
    pub name: &'static str,
    pub val: u64,
    pub unit: Option<usize>,
}

#[derive(Clone, Copy, Debug, PartialEq, Eq)]
pub enum LeafKind {
    Scalar,
    Vec,
    Mat,
}

#[derive(Clone, Debug)]
pub struct UnitRec {
    pub key: String,
    pub start: usize,
    /// end offset (exclusive) once the unit was parsed completely
    pub end: Option<usize>,
    /// metadata bytes: everything of the unit except payload and seed contents, max_size zeroed separately
    pub header: Vec<u8>,
    /// positions inside `header` of the max_size field (if any)
    pub max_size_pos: Option<usize>,
    pub leaf: Option<LeafRec>,
}

#[derive(Clone, Debug)]
pub struct LeafRec {
    pub kind: LeafKind,
    pub n: u64,
    pub cols: u64, // Vec/Scalar: cols; Mat: cols_out
    pub size: u64, // Scalar: 1
    pub max_size: u64,
    pub rows: u64,    // Mat only, else 1
    pub cols_in: u64, // Mat only, else 1
    pub len: u64,
    pub payload_off: usize,
}

impl LeafRec {
    /// exact byte count implied by the dimensions (u128, no wrap)
    pub fn product(&self) -> u128 {
        (self.n as u128)
            .saturating_mul(self.cols as u128)
            .saturating_mul(self.size as u128)
            .saturating_mul(self.rows as u128)
            .saturating_mul(self.cols_in as u128)
            .saturating_mul(8)
    }
    /// bytes addressed when size is raised to max_size
    pub fn product_max(&self) -> u128 {
        if self.kind != LeafKind::Vec {
            return self.product();
        }
        (self.n as u128)
            .saturating_mul(self.cols as u128)
            .saturating_mul(self.max_size as u128)
            .saturating_mul(8)
    }
}

/// What the model knows about a receiver: capacities per unit, element counts, Galois set, option tags.
#[derive(Clone, Debug, Default)]
pub struct RecvInfo {
    pub caps: BTreeMap<String, u64>,
    pub counts: BTreeMap<String, u64>,
    pub gals: Vec<i64>,
    pub opts: BTreeMap<String, bool>,
}

#[derive(Clone, Debug, PartialEq, Eq)]
pub enum Reject {
    Eof(usize),
    LenMismatch(String),
    Capacity(String),
    DistTag,
    Count(String),
    UnknownGal(i64),
    OptTag(String),
}

impl Reject {
    pub fn class(&self) -> &'static str {
        match self {
            Reject::Eof(_) => "eof",
            Reject::LenMismatch(_) => "len_mismatch",
            Reject::Capacity(_) => "capacity",
            Reject::DistTag => "dist_tag",
            Reject::Count(_) => "count",
            Reject::UnknownGal(_) => "unknown_gal",
            Reject::OptTag(_) => "opt_tag",
        }
    }
}

#[derive(Clone, Debug, Default)]
pub struct Parse {
    pub fields: Vec<Field>,
    pub units: Vec<UnitRec>,
    pub consumed: usize,
    pub reject: Option<Reject>,
    /// false when something legal-but-unusual was seen (size > max_size, max_size beyond capacity,
    /// zero dimensions, duplicate Galois element): the model then answers Either instead of MustOk.
    pub sane: bool,
    pub dup_gal: bool,
}

impl Parse {
    pub fn unit(&self, key: &str) -> Option<&UnitRec> {
        // last complete occurrence wins (duplicate Galois elements)
        self.units.iter().rev().find(|u| u.key == key)
    }
    /// Derives the receiver description from the parse of a freshly allocated object's blob.
    pub fn recv_info(&self) -> RecvInfo {
        let mut r = RecvInfo::default();
        for u in &self.units {
            if let Some(l) = &u.leaf {
                // alloc_aligned pads every buffer to a multiple of 64 bytes
                r.caps.insert(u.key.clone(), l.len.next_multiple_of(64));
            }
        }
        for f in &self.fields {
            match f.role {
                Role::Count => {
                    r.counts.insert(f.name.to_string(), f.val);
                }
                Role::Gal => r.gals.push(f.val as i64),
                Role::Tag => {
                    r.opts.insert(f.name.to_string(), f.val == 1);
                }
                _ => {}
            }
        }
        r
    }
}

struct Ctx<'a> {
    b: &'a [u8],
    pos: usize,
    recv: Option<&'a RecvInfo>,
    out: Parse,
    cur_unit: Option<usize>,
    prefix: String,
}

type R = Result<(), Reject>;

impl Ctx<'_> {
    fn need(&self, k: usize) -> R {
        if self.pos.checked_add(k).is_none_or(|e| e > self.b.len()) {
            Err(Reject::Eof(self.b.len()))
        } else {
            Ok(())
        }
    }
    fn word(&mut self, width: usize, role: Role, name: &'static str, in_header: bool) -> Result<u64, Reject> {
        self.need(width)?;
        let mut v = [0u8; 8];
        v[..width].copy_from_slice(&self.b[self.pos..self.pos + width]);
        let val = u64::from_le_bytes(v);
        self.out.fields.push(Field {
            off: self.pos,
            width,
            role,
            name,
            val,
            unit: self.cur_unit,
        });
        if in_header && let Some(u) = self.cur_unit {
            let unit = &mut self.out.units[u];
            if role == Role::MaxSize {
                unit.max_size_pos = Some(unit.header.len());
            }
            if role == Role::DistWord && (val >> 56 == 5 || val >> 56 == 6) {
                // ZERO / NONE carry no payload: canonical form for comparisons
                unit.header.extend_from_slice(&((val >> 56) << 56).to_le_bytes());
            } else {
                unit.header.extend_from_slice(&self.b[self.pos..self.pos + width]);
            }
        }
        self.pos += width;
        Ok(val)
    }
    fn unit_key(&self) -> String {
        match self.cur_unit {
            Some(u) => self.out.units[u].key.clone(),
            None => "?".into(),
        }
    }
    fn leaf(&mut self, kind: LeafKind) -> R {
        let (n, cols, size, max_size, rows, cols_in);
        match kind {
            LeafKind::Scalar => {
                n = self.word(8, Role::Dim, "n", true)?;
                cols = self.word(8, Role::Dim, "cols", true)?;
                size = 1;
                max_size = 1;
                rows = 1;
                cols_in = 1;
            }
            LeafKind::Vec => {
                n = self.word(8, Role::Dim, "n", true)?;
                cols = self.word(8, Role::Dim, "cols", true)?;
                size = self.word(8, Role::Dim, "size", true)?;
                max_size = self.word(8, Role::MaxSize, "max_size", true)?;
                rows = 1;
                cols_in = 1;
            }
            LeafKind::Mat => {
                n = self.word(8, Role::Dim, "n", true)?;
                size = self.word(8, Role::Dim, "size", true)?;
                rows = self.word(8, Role::Dim, "rows", true)?;
                cols_in = self.word(8, Role::Dim, "cols_in", true)?;
                cols = self.word(8, Role::Dim, "cols_out", true)?;
                max_size = size;
            }
        }
        let len = self.word(8, Role::Len, "len", true)?;
        let rec = LeafRec {
            kind,
            n,
            cols,
            size,
            max_size,
            rows,
            cols_in,
            len,
            payload_off: self.pos,
        };
        let key = self.unit_key();
        if rec.product() != len as u128 {
            return Err(Reject::LenMismatch(key));
        }
        if let Some(recv) = self.recv {
            let cap = recv.caps.get(&key).copied().unwrap_or(0);
            if len > cap {
                return Err(Reject::Capacity(key));
            }
            if rec.product_max() > cap as u128 {
                self.out.sane = false;
            }
        }
        if size > max_size || n == 0 || cols == 0 || size == 0 || rows == 0 || cols_in == 0 {
            self.out.sane = false;
        }
        if let Some(u) = self.cur_unit {
            self.out.units[u].leaf = Some(rec);
        }
        self.need(len as usize)?;
        self.pos += len as usize;
        Ok(())
    }
    fn go(&mut self, s: &Sch) -> R {
        match s {
            Sch::U32(name) => {
                self.word(4, Role::Scalar32, name, true)?;
            }
            Sch::U64(name) => {
                self.word(8, Role::Scalar64, name, true)?;
            }
            Sch::Dist => {
                let w = self.word(8, Role::DistWord, "dist", true)?;
                if (w >> 56) > 6 {
                    return Err(Reject::DistTag);
                }
            }
            Sch::Seed32 => {
                self.need(32)?;
                self.pos += 32;
            }
            Sch::SeedVec => {
                let c = self.word(4, Role::SeedLen, "seed_len", true)?;
                let bytes = (c as usize).checked_mul(32).ok_or(Reject::Eof(self.b.len()))?;
                self.need(bytes)?;
                self.pos += bytes;
            }
            Sch::Scalar => self.leaf(LeafKind::Scalar)?,
            Sch::Vec => self.leaf(LeafKind::Vec)?,
            Sch::Mat => self.leaf(LeafKind::Mat)?,
            Sch::Seq(v) => {
                for x in v {
                    self.go(x)?;
                }
            }
            Sch::Unit(name, inner) => {
                let key = if self.prefix.is_empty() {
                    name.to_string()
                } else if name.is_empty() {
                    self.prefix.clone()
                } else {
                    format!("{}.{}", self.prefix, name)
                };
                let idx = self.out.units.len();
                self.out.units.push(UnitRec {
                    key,
                    start: self.pos,
                    end: None,
                    header: Vec::new(),
                    max_size_pos: None,
                    leaf: None,
                });
                let saved = self.cur_unit.replace(idx);
                let r = self.go(inner);
                if r.is_ok() {
                    self.out.units[idx].end = Some(self.pos);
                }
                self.cur_unit = saved;
                r?;
            }
            Sch::Rep(name, inner) => {
                let c = self.word(8, Role::Count, name, false)?;
                if let Some(recv) = self.recv
                    && recv.counts.get(*name).copied() != Some(c)
                {
                    return Err(Reject::Count(name.to_string()));
                }
                let saved = std::mem::take(&mut self.prefix);
                for i in 0..c {
                    self.prefix = format!("{name}[{i}]");
                    let r = self.go(inner);
                    if r.is_err() {
                        self.prefix = saved;
                        return r;
                    }
                }
                self.prefix = saved;
            }
            Sch::AtkMap(inner) => {
                let c = self.word(8, Role::Count, "atk", false)?;
                if let Some(recv) = self.recv
                    && recv.gals.len() as u64 != c
                {
                    return Err(Reject::Count("atk".into()));
                }
                let saved = std::mem::take(&mut self.prefix);
                let mut seen: Vec<i64> = Vec::new();
                for _ in 0..c {
                    let g = self.word(8, Role::Gal, "gal", false)? as i64;
                    if let Some(recv) = self.recv
                        && !recv.gals.contains(&g)
                    {
                        self.prefix = saved;
                        return Err(Reject::UnknownGal(g));
                    }
                    if seen.contains(&g) {
                        self.out.sane = false;
                        self.out.dup_gal = true;
                    }
                    seen.push(g);
                    self.prefix = format!("atk[{g}]");
                    let r = self.go(inner);
                    if r.is_err() {
                        self.prefix = saved;
                        return r;
                    }
                }
                self.prefix = saved;
            }
            Sch::Opt(name, inner) => {
                let t = self.word(1, Role::Tag, name, false)?;
                let has = self.recv.map(|r| r.opts.get(*name).copied().unwrap_or(false));
                match t {
                    0 => {
                        if has == Some(true) {
                            return Err(Reject::OptTag(name.to_string()));
                        }
                    }
                    1 => {
                        if has == Some(false) {
                            return Err(Reject::OptTag(name.to_string()));
                        }
                        self.go(inner)?;
                    }
                    _ => return Err(Reject::OptTag(name.to_string())),
                }
            }
        }
        Ok(())
    }
}

/// Parses `bytes`. With `recv = None` only format-internal conditions are judged (used on trusted blobs).
pub fn parse(s: &Sch, bytes: &[u8], recv: Option<&RecvInfo>) -> Parse {
    let mut c = Ctx {
        b: bytes,
        pos: 0,
        recv,
        out: Parse {
            sane: true,
            ..Default::default()
        },
        cur_unit: None,
        prefix: String::new(),
    };
    let r = c.go(s);
    c.out.consumed = c.pos;
    c.out.reject = r.err();
    c.out
}

// ---- grammar of every serialisable type (appendix A) ----

fn u(name: &'static str, inner: Sch) -> Sch {
    Sch::Unit(name, Box::new(inner))
}
fn seq(v: Vec<Sch>) -> Sch {
    Sch::Seq(v)
}

pub fn lwe() -> Sch {
    seq(vec![Sch::U32("base2k"), Sch::Vec])
}
pub fn glwe() -> Sch {
    seq(vec![Sch::U32("base2k"), Sch::Vec])
}
pub fn gglwe() -> Sch {
    seq(vec![Sch::U32("base2k"), Sch::U32("dsize"), Sch::Mat])
}
pub fn ggsw() -> Sch {
    gglwe()
}
pub fn glwe_pk() -> Sch {
    seq(vec![Sch::Dist, glwe()])
}
pub fn glwe_swk() -> Sch {
    seq(vec![Sch::U32("input_degree"), Sch::U32("output_degree"), gglwe()])
}
pub fn glwe_atk() -> Sch {
    seq(vec![Sch::U64("p"), gglwe()])
}
pub fn lwe_c() -> Sch {
    seq(vec![Sch::U32("k"), Sch::U32("base2k"), Sch::Seed32, Sch::Vec])
}
pub fn glwe_c() -> Sch {
    seq(vec![Sch::U32("base2k"), Sch::U32("rank"), Sch::Seed32, Sch::Vec])
}
pub fn gglwe_c() -> Sch {
    seq(vec![
        Sch::U32("k"),
        Sch::U32("base2k"),
        Sch::U32("dsize"),
        Sch::U32("rank_out"),
        Sch::SeedVec,
        Sch::Mat,
    ])
}
pub fn ggsw_c() -> Sch {
    seq(vec![
        Sch::U32("k"),
        Sch::U32("base2k"),
        Sch::U32("dsize"),
        Sch::U32("rank"),
        Sch::SeedVec,
        Sch::Mat,
    ])
}
pub fn glwe_swk_c() -> Sch {
    seq(vec![Sch::U32("input_degree"), Sch::U32("output_degree"), gglwe_c()])
}
pub fn glwe_atk_c() -> Sch {
    seq(vec![Sch::U64("p"), gglwe_c()])
}
pub fn top(inner: Sch) -> Sch {
    u("self", inner)
}
pub fn brk() -> Sch {
    seq(vec![Sch::Dist, Sch::Rep("brk", Box::new(u("", ggsw())))])
}
pub fn brk_c() -> Sch {
    seq(vec![Sch::Dist, Sch::Rep("brk", Box::new(u("", ggsw_c())))])
}
pub fn tsk() -> Sch {
    Sch::Rep("tsk", Box::new(u("", gglwe())))
}
pub fn tsk_c() -> Sch {
    Sch::Rep("tsk", Box::new(u("", gglwe_c())))
}
pub fn cbk() -> Sch {
    seq(vec![brk(), Sch::AtkMap(Box::new(u("", glwe_atk()))), tsk()])
}
pub fn bdd() -> Sch {
    seq(vec![cbk(), Sch::Opt("ks_glwe", Box::new(u("ks_glwe", glwe_swk()))), u("ks_lwe", glwe_swk())])
}
