//! C18 - serialisation round-trips, damaged input is rejected without corruption.
pub mod generate;
pub mod history;
pub mod kinds;
pub mod schema;

use crate::driver::{Acc, CheckImpl, Tier, Viol, announce};
use generate::{enum_groups, execute, minimise, run_group, run_random};
use history::{History, Stats, Violation};
use serde_json::{Value, json};

pub struct C18;

const BATCH: u64 = 100;

fn params(tier: Tier) -> (u64, bool, u64) {
    // (layouts per kind, small layouts only, random histories)
    match tier {
        Tier::Quick => (1, true, 20_000),
        Tier::Thorough => (4, false, 1_000_000),
    }
}

fn fold_stats(acc: &mut Acc, s: &Stats) {
    for (k, v) in &s.counters {
        acc.add(k, *v);
    }
    for t in &s.tuples {
        acc.set_insert("outcome_tuples", *t);
    }
    for t in &s.transitions {
        acc.set_insert("receiver_header_transitions", *t);
    }
}

fn to_viol(unit: u64, h: &History, v: &Violation) -> Viol {
    let m = minimise(h, v);
    // re-run to get the detail of the minimised history
    let detail = execute(&m).ok().flatten().map(|x| x.detail).unwrap_or_else(|| v.detail.clone());
    let mut replay = m.to_json();
    replay["minimised_from_ops"] = json!(h.ops.len());
    Viol {
        unit,
        oracle: v.oracle.clone(),
        class: v.class.clone(),
        subject: h.kind.clone(),
        detail,
        replay,
    }
}

impl CheckImpl for C18 {
    fn id(&self) -> &'static str {
        "C18"
    }
    fn level(&self) -> &'static str {
        "fault_enumeration"
    }
    fn units(&self, tier: Tier, _seed: u64) -> u64 {
        let (l, _, r) = params(tier);
        enum_groups(l) + r / BATCH
    }
    fn run_unit(&mut self, tier: Tier, seed: u64, unit: u64, acc: &mut Acc, viols: &mut Vec<Viol>) {
        let (l, small, _) = params(tier);
        let groups = enum_groups(l);
        let mut stats = Stats::default();
        let mut on_case = |h: &History| announce(unit, &|| json!({"unit": unit, "replay": h.to_json()}).to_string());
        if unit < groups {
            match run_group(seed, unit, l, small, &mut stats, &mut on_case) {
                Ok(r) => {
                    acc.evaluations += r.cases;
                    acc.log_unit(unit, r.hash);
                    acc.bump("enum.groups");
                    if let Some(s) = r.sample
                        && acc.samples.len() < 3
                    {
                        acc.samples.push(s.to_json());
                    }
                    for (h, v) in &r.violations {
                        viols.push(to_viol(unit, h, v));
                    }
                }
                Err(e) if e.starts_with("INADMISSIBLE") => {
                    // the layout drawn for this group is rejected by the type's own alloc (e.g. a matrix type
                    // with a single limb): nothing to serialise
                    acc.evaluations += 1;
                    acc.bump("skipped.inadmissible_layout");
                }
                Err(e) => crate::driver::harness_error(&format!("C18 group {unit}: {e}")),
            }
        } else {
            let b = unit - groups;
            let mut uh = 0u64;
            for i in 0..BATCH {
                let idx = b * BATCH + i;
                match run_random(seed, idx, tier == Tier::Thorough, &mut stats, &mut on_case) {
                    Ok(r) => {
                        acc.evaluations += 1;
                        uh = crate::util::fnv_mix(uh, r.hash);
                        if i == 0 && b < 3 && acc.samples.len() < 6 {
                            acc.samples.push(r.history.to_json());
                        }
                        if let Some(v) = &r.violation {
                            // one representative per key per unit
                            if !viols.iter().any(|x| x.oracle == v.oracle && x.class == v.class && x.subject == r.history.kind) {
                                viols.push(to_viol(unit, &r.history, v));
                            }
                        }
                    }
                    Err(e) if e.starts_with("INADMISSIBLE") => {
                        acc.evaluations += 1;
                        acc.bump("skipped.inadmissible_layout");
                    }
                    Err(e) => crate::driver::harness_error(&format!("C18 random {idx}: {e}")),
                }
            }
            acc.log_unit(unit, uh);
            acc.bump("random.batches");
        }
        fold_stats(acc, &stats);
    }
    fn secondary(&mut self, tier: Tier, seed: u64) -> (Vec<Viol>, Value) {
        let want = match std::env::var("VERIF_MIRI").ok().as_deref() {
            Some("1") => true,
            Some("0") => false,
            _ => tier == Tier::Thorough,
        };
        if !want {
            return (Vec::new(), json!({"engine": "miri", "skipped": "quick tier (set VERIF_MIRI=1 to include); runs in the thorough tier"}));
        }
        // the same random hostile histories, interpreted by Miri: out-of-bounds slice construction in the safe
        // accessors, reads of uninitialised bytes and UB inside read_from/write_to are reported even if INV were
        // mis-specified. 12 processes x 24 histories.
        let t0 = std::time::Instant::now();
        let jobs: Vec<(u64, u64)> = (0..12u64).map(|j| (j * 24, 24)).collect();
        let seed_s = seed.to_string();
        // warm-up build
        let warm = crate::c20::miri_run_args(&["miri-c18", &seed_s, "0", "1"], 0, 1, "MIRI-C18: ok");
        let mut viols = Vec::new();
        let mut runs = vec![json!({"from": 0, "count": 1, "ok": warm.0, "warmup": true})];
        if !warm.0 {
            viols.push(miri_viol(seed, 0, 1, &warm.1));
        }
        let handles: Vec<_> = jobs
            .iter()
            .map(|(from, count)| {
                let (from, count, seed_s) = (*from, *count, seed_s.clone());
                std::thread::spawn(move || {
                    let r = crate::c20::miri_run_args(&["miri-c18", &seed_s, &from.to_string(), &count.to_string()], 0, 1, "MIRI-C18: ok");
                    (from, count, r)
                })
            })
            .collect();
        for h in handles {
            let (from, count, r) = h.join().unwrap();
            runs.push(json!({"from": from, "count": count, "ok": r.0}));
            if !r.0 {
                viols.push(miri_viol(seed, from, count, &r.1));
            }
        }
        (viols, json!({"engine": "miri (nightly): random C18 histories interpreted, accessor probes included", "runs": runs, "wall_s": t0.elapsed().as_secs_f64()}))
    }
    fn replay(&mut self, replay: &Value) -> Option<(String, String, String)> {
        if replay["engine"].as_str() == Some("miri") {
            let s = replay["seed"].as_u64().unwrap().to_string();
            let f = replay["from"].as_u64().unwrap().to_string();
            let c = replay["count"].as_u64().unwrap().to_string();
            let r = crate::c20::miri_run_args(&["miri-c18", &s, &f, &c], 0, 1, "MIRI-C18: ok");
            return if r.0 { None } else { Some(("MIRI".into(), "miri_report".into(), r.1)) };
        }
        let h = History::from_json(replay);
        announce(0, &|| json!({"unit": 0, "replay": h.to_json()}).to_string());
        match execute(&h) {
            Ok(Some(v)) => Some((v.oracle, v.class, v.detail)),
            Ok(None) => None,
            Err(e) => crate::driver::harness_error(&format!("replay: {e}")),
        }
    }
    fn describe(&self, tier: Tier, acc: &Acc) -> Value {
        let (l, small, r) = params(tier);
        let tuples = acc.sets.get("outcome_tuples").map(|s| s.len()).unwrap_or(0) as u64;
        json!({
            "distinct_nontrivial": tuples,
            "rule": format!("Cases = (a) exhaustive single-fault enumeration over {} enumeration groups (30 serialisable types x 6 sender/receiver capacity pairs x {} layouts{}): every truncation point, every header field x boundary dictionary, every single header bit, reader/writer hard error at every offset, write_zero, wrap-around and consistent (product-preserving) multi-field corruptions, zeroed/lost blocks, trailing garbage, benign short/EINTR patterns; (b) {} seeded random histories of 4-12 operations (craft/write/damage/read/set_size/realloc/probe) over 1-3 objects (one history in forty on megabyte-sized objects). distinct_nontrivial counts distinct (type, operation, fault kind, model verdict, offset class, outcome, error kind) tuples observed; a case is non-trivial when it executed at least one real read_from or write_to.", enum_groups(l), l, if small {", small layouts"} else {""}, r),
            "assumptions": [
                "the model decoder (sim/src/c18/schema.rs, written from the wire grammar) is the reference for MustErr/MustOk",
                "receiver state is observed through its own fault-free write_to plus public fields where they exist",
                "buffer capacity of each leaf is taken from the freshly allocated receiver (read_from cannot reallocate)",
                "sampling beyond the enumerated single-fault space; Vec<u8>-backed receivers only"
            ],
            "extra": {
                "components": {"real": ["all 30 ReaderFrom/WriterTo impls of poulpy-hal, poulpy-core, poulpy-bin-fhe", "alloc functions"],
                               "stub": ["stream endpoints (SimReader/SimWriter)", "global allocator wrapper (cap + layout side table)"]},
                "simulated_time": "logical: one step per stream call; no clock in the code under test",
            }
        })
    }
}

fn miri_viol(seed: u64, from: u64, count: u64, report: &str) -> Viol {
    Viol {
        unit: u64::MAX - 1,
        oracle: "MIRI".into(),
        class: "miri_report".into(),
        subject: "histories".into(),
        detail: format!("Miri reported on random histories [{from}, {}) of seed {seed}: {report}", from + count),
        replay: json!({"engine": "miri", "seed": seed, "from": from, "count": count}),
    }
}

/// Entry point for `cargo +nightly miri run -- miri-c18 <seed> <from> <count>`.
pub fn miri_main(args: &[String]) -> ! {
    let seed: u64 = args[0].parse().unwrap();
    let from: u64 = args[1].parse().unwrap();
    let count: u64 = args[2].parse().unwrap();
    crate::util::install_quiet_panic_hook();
    generate::NO_LARGE.store(true, std::sync::atomic::Ordering::Relaxed);
    let mut stats = Stats::default();
    for idx in from..from + count {
        // offset so that Miri does not simply repeat the first native histories
        match run_random(seed, 1_000_000 + idx, false, &mut stats, &mut |_h: &History| {}) {
            Ok(r) => {
                if let Some(v) = r.violation {
                    println!("MIRI-C18: violation {} {} at history {idx}: {}", v.oracle, v.class, v.detail);
                    std::process::exit(1);
                }
            }
            // a layout the type's own alloc rejects (e.g. size 1 for a matrix type): skipped, as in the native run
            Err(e) if e.starts_with("INADMISSIBLE") => {}
            Err(e) => {
                println!("MIRI-C18: harness error {e}");
                std::process::exit(2);
            }
        }
    }
    println!("MIRI-C18: ok histories={count}");
    std::process::exit(0);
}
