//! C18 - serialisation round-trips, damaged input is rejected without corruption.
pub mod generate;
pub mod history;
pub mod kinds;
pub mod schema;

use crate::driver::{Acc, CheckImpl, Tier, Viol, announce};
use generate::{enum_groups, execute, minimise, run_group, run_random};
use history::{History, Stats, Violation};
use serde_json::{Value, json};

pub struct C18;

const BATCH: u64 = 100;

fn params(tier: Tier) -> (u64, bool, u64) {
    // (layouts per kind, small layouts only, random histories)
    match tier {
        Tier::Quick => (1, true, 20_000),
        Tier::Thorough => (4, false, 1_000_000),
    }
}

fn fold_stats(acc: &mut Acc, s: &Stats) {
    for (k, v) in &s.counters {
        acc.add(k, *v);
    }
    for t in &s.tuples {
        acc.set_insert("outcome_tuples", *t);
    }
    for t in &s.transitions {
        acc.set_insert("receiver_header_transitions", *t);
    }
}

fn to_viol(unit: u64, h: &History, v: &Violation) -> Viol {
    let m = minimise(h, v);
    // re-run to get the detail of the minimised history
    let detail = execute(&m).ok().flatten().map(|x| x.detail).unwrap_or_else(|| v.detail.clone());
    let mut replay = m.to_json();
    replay["minimised_from_ops"] = json!(h.ops.len());
    Viol {
        unit,
        oracle: v.oracle.clone(),
        class: v.class.clone(),
        subject: h.kind.clone(),
        detail,
        replay,
    }
}

impl CheckImpl for C18 {
    fn id(&self) -> &'static str {
        "C18"
    }
    fn level(&self) -> &'static str {
        "fault_enumeration"
    }
    fn units(&self, tier: Tier, _seed: u64) -> u64 {
        let (l, _, r) = params(tier);
        enum_groups(l) + r / BATCH
    }
    fn run_unit(&mut self, tier: Tier, seed: u64, unit: u64, acc: &mut Acc, viols: &mut Vec<Viol>) {
        let (l, small, _) = params(tier);
        let groups = enum_groups(l);
        let mut stats = Stats::default();
        let mut on_case = |h: &History| announce(unit, &|| json!({"unit": unit, "replay": h.to_json()}).to_string());
        if unit < groups {
            match run_group(seed, unit, l, small, &mut stats, &mut on_case) {
                Ok(r) => {
                    acc.evaluations += r.cases;
                    acc.log_unit(unit, r.hash);
                    acc.bump("enum.groups");
                    if let Some(s) = r.sample
                        && acc.samples.len() < 3
                    {
                        acc.samples.push(s.to_json());
                    }
                    for (h, v) in &r.violations {
                        viols.push(to_viol(unit, h, v));
                    }
                }
                Err(e) => crate::driver::harness_error(&format!("C18 group {unit}: {e}")),
            }
        } else {
            let b = unit - groups;
            let mut uh = 0u64;
            for i in 0..BATCH {
                let idx = b * BATCH + i;
                match run_random(seed, idx, tier == Tier::Thorough, &mut stats, &mut on_case) {
                    Ok(r) => {
                        acc.evaluations += 1;
                        uh = crate::util::fnv_mix(uh, r.hash);
                        if i == 0 && b < 3 && acc.samples.len() < 6 {
                            acc.samples.push(r.history.to_json());
                        }
                        if let Some(v) = &r.violation {
                            // one representative per key per unit
                            if !viols.iter().any(|x| x.oracle == v.oracle && x.class == v.class && x.subject == r.history.kind) {
                                viols.push(to_viol(unit, &r.history, v));
                            }
                        }
                    }
                    Err(e) => crate::driver::harness_error(&format!("C18 random {idx}: {e}")),
                }
            }
            acc.log_unit(unit, uh);
            acc.bump("random.batches");
        }
        fold_stats(acc, &stats);
    }
    fn replay(&mut self, replay: &Value) -> Option<(String, String, String)> {
        let h = History::from_json(replay);
        announce(0, &|| json!({"unit": 0, "replay": h.to_json()}).to_string());
        match execute(&h) {
            Ok(Some(v)) => Some((v.oracle, v.class, v.detail)),
            Ok(None) => None,
            Err(e) => crate::driver::harness_error(&format!("replay: {e}")),
        }
    }
    fn describe(&self, tier: Tier, acc: &Acc) -> Value {
        let (l, small, r) = params(tier);
        let tuples = acc.sets.get("outcome_tuples").map(|s| s.len()).unwrap_or(0) as u64;
        json!({
            "distinct_nontrivial": tuples,
            "rule": format!("Cases = (a) exhaustive single-fault enumeration over {} enumeration groups (30 serialisable types x 5 sender/receiver capacity pairs x {} layouts{}): every truncation point, every header field x boundary dictionary, every single header bit, reader/writer hard error at every offset, write_zero, wrap-around multi-field corruptions, zeroed/lost blocks, trailing garbage, benign short/EINTR patterns; (b) {} seeded random histories of 4-12 operations (craft/write/damage/read/set_size/realloc/probe) over 1-3 objects. distinct_nontrivial counts distinct (type, operation, fault kind, model verdict, offset class, outcome, error kind) tuples observed; a case is non-trivial when it executed at least one real read_from or write_to.", enum_groups(l), l, if small {", small layouts"} else {""}, r),
            "assumptions": [
                "the model decoder (sim/src/c18/schema.rs, written from the wire grammar) is the reference for MustErr/MustOk",
                "receiver state is observed through its own fault-free write_to plus public fields where they exist",
                "buffer capacity of each leaf is taken from the freshly allocated receiver (read_from cannot reallocate)",
                "sampling beyond the enumerated single-fault space; Vec<u8>-backed receivers only"
            ],
            "extra": {
                "components": {"real": ["all 30 ReaderFrom/WriterTo impls of poulpy-hal, poulpy-core, poulpy-bin-fhe", "alloc functions"],
                               "stub": ["stream endpoints (SimReader/SimWriter)", "global allocator wrapper (cap + layout side table)"]},
                "simulated_time": "logical: one step per stream call; no clock in the code under test",
            }
        })
    }
}
