//! Catalogue of every type implementing `ReaderFrom`/`WriterTo` (30), how to allocate it for a
//! layout, and its wire grammar.
use super::schema::{self as sc, Sch};
use crate::prng::Rng;
use crate::stream::{SimReader, SimWriter};
use poulpy_bin_fhe::bdd_arithmetic::{BDDKey, BDDKeyLayout};
use poulpy_bin_fhe::blind_rotation::{BlindRotationKey, BlindRotationKeyCompressed, BlindRotationKeyLayout, CGGI};
use poulpy_bin_fhe::circuit_bootstrapping::{CircuitBootstrappingKey, CircuitBootstrappingKeyLayout};
use poulpy_core::layouts::compressed::*;
use poulpy_core::layouts::*;
use poulpy_hal::layouts::{MatZnx, ReaderFrom, ScalarZnx, VecZnx, WriterTo, ZnxInfos, ZnxView};
use serde_json::{Value, json};
use std::io;

#[derive(Clone, Debug, PartialEq)]
pub struct Lay {
    pub n: u32,
    pub base2k: u32,
    pub k: u32,
    pub rank_in: u32,
    pub rank_out: u32,
    pub dnum: u32,
    pub dsize: u32,
    pub n_lwe: u32,
    pub cols: u32,
    pub rows: u32,
    pub ks_glwe: bool,
}

impl Lay {
    pub fn size(&self) -> u32 {
        self.k.div_ceil(self.base2k)
    }
    pub fn to_json(&self) -> Value {
        json!({"n": self.n, "base2k": self.base2k, "k": self.k, "rank_in": self.rank_in, "rank_out": self.rank_out,
               "dnum": self.dnum, "dsize": self.dsize, "n_lwe": self.n_lwe, "cols": self.cols, "rows": self.rows, "ks_glwe": self.ks_glwe})
    }
    pub fn from_json(v: &Value) -> Lay {
        let g = |k: &str| v[k].as_u64().unwrap() as u32;
        Lay {
            n: g("n"),
            base2k: g("base2k"),
            k: g("k"),
            rank_in: g("rank_in"),
            rank_out: g("rank_out"),
            dnum: g("dnum"),
            dsize: g("dsize"),
            n_lwe: g("n_lwe"),
            cols: g("cols"),
            rows: g("rows"),
            ks_glwe: v["ks_glwe"].as_bool().unwrap(),
        }
    }
    /// Random admissible layout. `small` keeps blobs in the hundreds of bytes to few KiB.
    pub fn random(rng: &mut Rng, small: bool) -> Lay {
        let n = if small { *rng.pick(&[8u32, 16]) } else { *rng.pick(&[8u32, 16, 32, 64, 128]) };
        let base2k = rng.range(8, 17) as u32;
        // size 1 is legal for the vector types only (matrix types need size > dsize): such layouts are
        // skipped for the kinds whose alloc rejects them
        let size = if rng.chance(150) { 1 } else { rng.range(2, if small { 3 } else { 4 }) as u32 };
        // k deliberately not a multiple of base2k most of the time
        let k = base2k * (size - 1) + rng.range(1, base2k as u64) as u32;
        let dsize = rng.range(1, (size.saturating_sub(1)).clamp(1, 3) as u64) as u32;
        let dnum = rng.range(1, (size / dsize).max(1) as u64) as u32;
        Lay {
            n,
            base2k,
            k,
            rank_in: rng.range(1, if small { 2 } else { 3 }) as u32,
            // rank 0 (a single column) is legal for the GLWE-like vector types
            rank_out: if rng.chance(100) { 0 } else { rng.range(1, if small { 2 } else { 3 }) as u32 },
            dnum,
            dsize,
            n_lwe: rng.range(1, if small { 4 } else { 9 }) as u32,
            cols: rng.range(1, 3) as u32,
            rows: rng.range(1, 3) as u32,
            ks_glwe: rng.chance(500),
        }
    }
    /// Objects of megabytes rather than kilobytes (thresholds: payload above 64 KiB, more than 8 rows, many limbs).
    pub fn large(rng: &mut Rng) -> Lay {
        let n = *rng.pick(&[256u32, 512, 1024, 2048]);
        let base2k = rng.range(8, 17) as u32;
        let size = rng.range(3, 9) as u32;
        let k = base2k * (size - 1) + rng.range(1, base2k as u64) as u32;
        let dsize = rng.range(1, 3.min(size - 1) as u64) as u32;
        let dnum = rng.range(1, (size / dsize).max(1) as u64) as u32;
        Lay {
            n,
            base2k,
            k,
            rank_in: rng.range(1, 3) as u32,
            rank_out: rng.range(1, 3) as u32,
            dnum,
            dsize,
            n_lwe: rng.range(1, 32) as u32,
            cols: rng.range(1, 4) as u32,
            rows: rng.range(1, 12) as u32,
            ks_glwe: rng.chance(500),
        }
    }
    /// A layout with the same structure (counts, Galois set, option tags) but different capacity.
    pub fn resized(&self, rng: &mut Rng, grow: bool) -> Lay {
        let mut l = self.clone();
        let size = self.size();
        if grow {
            let ns = size + rng.range(1, 2) as u32;
            l.k = l.base2k * (ns - 1) + rng.range(1, l.base2k as u64) as u32;
            // ScalarZnx has no limbs: its capacity only differs through the column count
            if rng.chance(700) {
                l.cols += 1;
                l.rows += 1;
            }
        } else {
            // shrink by one limb if possible while staying admissible (size > dsize, dnum*dsize <= size)
            let ns = if size >= 2 { size.saturating_sub(1).max(2) } else { 1 };
            l.k = l.base2k * (ns - 1) + rng.range(1, l.base2k as u64) as u32;
            l.dsize = l.dsize.min(ns.saturating_sub(1)).max(1);
            l.dnum = l.dnum.min(ns / l.dsize).max(1);
            if rng.chance(700) && l.cols > 1 {
                l.cols -= 1;
            }
        }
        l
    }
}

pub trait DynObj {
    fn write(&self, w: &mut SimWriter) -> io::Result<()>;
    fn read(&mut self, r: &mut SimReader) -> io::Result<()>;
    /// Direct view of the (single) underlying buffer where public accessors exist:
    /// (n, cols, size, max_size, data_len_bytes).
    fn inspect(&self) -> Option<(usize, usize, usize, usize, usize)> {
        None
    }
    fn set_size(&mut self, _s: usize) -> bool {
        false
    }
    fn realloc(&mut self, _s: usize) -> bool {
        false
    }
    /// Touches every coefficient reachable through the safe accessors; returns a checksum.
    fn probe(&self) -> Option<u64> {
        None
    }
}

pub struct W<T>(pub T);

macro_rules! plain_obj {
    ($t:ty) => {
        impl DynObj for W<$t> {
            fn write(&self, w: &mut SimWriter) -> io::Result<()> {
                self.0.write_to(w)
            }
            fn read(&mut self, r: &mut SimReader) -> io::Result<()> {
                self.0.read_from(r)
            }
        }
    };
}

/// Accepted headers may carry huge counts next to a zero dimension (e.g. rows = 2^60, size = 0): the
/// byte invariant holds, but a probe that walks every index would never finish.
fn small(dims: &[usize]) -> bool {
    let mut p: u128 = 1;
    for d in dims {
        p = p.saturating_mul((*d).max(1) as u128);
    }
    p <= 1 << 22
}

fn probe_vec(v: &VecZnx<Vec<u8>>) -> u64 {
    if !small(&[v.n(), v.cols(), v.size()]) {
        return 0;
    }
    let mut acc = 0u64;
    for j in 0..v.size() {
        for i in 0..v.cols() {
            for x in v.at(i, j) {
                acc = acc.wrapping_mul(31).wrapping_add(*x as u64);
            }
        }
    }
    for x in v.raw() {
        acc = acc.wrapping_add(*x as u64);
    }
    acc
}

impl DynObj for W<VecZnx<Vec<u8>>> {
    fn write(&self, w: &mut SimWriter) -> io::Result<()> {
        self.0.write_to(w)
    }
    fn read(&mut self, r: &mut SimReader) -> io::Result<()> {
        self.0.read_from(r)
    }
    fn inspect(&self) -> Option<(usize, usize, usize, usize, usize)> {
        Some((self.0.n, self.0.cols, self.0.size, self.0.max_size, self.0.data.len()))
    }
    fn set_size(&mut self, s: usize) -> bool {
        self.0.set_size(s);
        true
    }
    fn realloc(&mut self, s: usize) -> bool {
        self.0.reallocate_limbs(s);
        true
    }
    fn probe(&self) -> Option<u64> {
        Some(probe_vec(&self.0))
    }
}

impl DynObj for W<ScalarZnx<Vec<u8>>> {
    fn write(&self, w: &mut SimWriter) -> io::Result<()> {
        self.0.write_to(w)
    }
    fn read(&mut self, r: &mut SimReader) -> io::Result<()> {
        self.0.read_from(r)
    }
    fn inspect(&self) -> Option<(usize, usize, usize, usize, usize)> {
        Some((self.0.n, self.0.cols, 1, 1, self.0.data.len()))
    }
    fn probe(&self) -> Option<u64> {
        if !small(&[self.0.n(), self.0.cols()]) {
            return Some(0);
        }
        let mut acc = 0u64;
        for i in 0..self.0.cols() {
            for x in self.0.at(i, 0) {
                acc = acc.wrapping_mul(31).wrapping_add(*x as u64);
            }
        }
        Some(acc)
    }
}

impl DynObj for W<MatZnx<Vec<u8>>> {
    fn write(&self, w: &mut SimWriter) -> io::Result<()> {
        self.0.write_to(w)
    }
    fn read(&mut self, r: &mut SimReader) -> io::Result<()> {
        self.0.read_from(r)
    }
    fn probe(&self) -> Option<u64> {
        if !small(&[self.0.n(), self.0.rows(), self.0.cols_in(), self.0.cols_out(), self.0.size()]) {
            return Some(0);
        }
        let mut acc = 0u64;
        for r in 0..self.0.rows() {
            for c in 0..self.0.cols_in() {
                let v = self.0.at(r, c);
                for j in 0..v.size() {
                    for i in 0..v.cols() {
                        for x in v.at(i, j) {
                            acc = acc.wrapping_mul(31).wrapping_add(*x as u64);
                        }
                    }
                }
            }
        }
        Some(acc)
    }
}

impl DynObj for W<GLWE<Vec<u8>>> {
    fn write(&self, w: &mut SimWriter) -> io::Result<()> {
        self.0.write_to(w)
    }
    fn read(&mut self, r: &mut SimReader) -> io::Result<()> {
        self.0.read_from(r)
    }
    fn inspect(&self) -> Option<(usize, usize, usize, usize, usize)> {
        let d = self.0.data();
        Some((d.n, d.cols, d.size, d.max_size, d.data.len()))
    }
    fn set_size(&mut self, s: usize) -> bool {
        self.0.data_mut().set_size(s);
        true
    }
    fn realloc(&mut self, s: usize) -> bool {
        self.0.reallocate_limbs(s);
        true
    }
    fn probe(&self) -> Option<u64> {
        Some(probe_vec(self.0.data()))
    }
}

impl DynObj for W<LWE<Vec<u8>>> {
    fn write(&self, w: &mut SimWriter) -> io::Result<()> {
        self.0.write_to(w)
    }
    fn read(&mut self, r: &mut SimReader) -> io::Result<()> {
        self.0.read_from(r)
    }
    fn inspect(&self) -> Option<(usize, usize, usize, usize, usize)> {
        let d = self.0.data();
        Some((d.n, d.cols, d.size, d.max_size, d.data.len()))
    }
    fn set_size(&mut self, s: usize) -> bool {
        self.0.data_mut().set_size(s);
        true
    }
    fn probe(&self) -> Option<u64> {
        Some(probe_vec(self.0.data()))
    }
}

plain_obj!(GGLWE<Vec<u8>>);
plain_obj!(GGSW<Vec<u8>>);
plain_obj!(GLWEPublicKey<Vec<u8>>);
plain_obj!(GLWESwitchingKey<Vec<u8>>);
plain_obj!(GLWEAutomorphismKey<Vec<u8>>);
plain_obj!(GLWETensorKey<Vec<u8>>);
plain_obj!(GLWEToLWEKey<Vec<u8>>);
plain_obj!(LWEToGLWEKey<Vec<u8>>);
plain_obj!(LWESwitchingKey<Vec<u8>>);
plain_obj!(GGLWEToGGSWKey<Vec<u8>>);
plain_obj!(LWECompressed<Vec<u8>>);
plain_obj!(GLWECompressed<Vec<u8>>);
plain_obj!(GGLWECompressed<Vec<u8>>);
plain_obj!(GGSWCompressed<Vec<u8>>);
plain_obj!(GLWESwitchingKeyCompressed<Vec<u8>>);
plain_obj!(GLWEAutomorphismKeyCompressed<Vec<u8>>);
plain_obj!(GLWETensorKeyCompressed<Vec<u8>>);
plain_obj!(GLWEToLWESwitchingKeyCompressed<Vec<u8>>);
plain_obj!(LWEToGLWEKeyCompressed<Vec<u8>>);
plain_obj!(LWESwitchingKeyCompressed<Vec<u8>>);
plain_obj!(GGLWEToGGSWKeyCompressed<Vec<u8>>);
plain_obj!(BlindRotationKey<Vec<u8>, CGGI>);
plain_obj!(BlindRotationKeyCompressed<Vec<u8>, CGGI>);
plain_obj!(CircuitBootstrappingKey<Vec<u8>, CGGI>);
plain_obj!(BDDKey<Vec<u8>, CGGI>);

pub const KINDS: &[&str] = &[
    "ScalarZnx",
    "VecZnx",
    "MatZnx",
    "LWE",
    "GLWE",
    "GGLWE",
    "GGSW",
    "GLWEPublicKey",
    "GLWESwitchingKey",
    "GLWEAutomorphismKey",
    "GLWETensorKey",
    "GLWEToLWEKey",
    "LWEToGLWEKey",
    "LWESwitchingKey",
    "GGLWEToGGSWKey",
    "LWECompressed",
    "GLWECompressed",
    "GGLWECompressed",
    "GGSWCompressed",
    "GLWESwitchingKeyCompressed",
    "GLWEAutomorphismKeyCompressed",
    "GLWETensorKeyCompressed",
    "GLWEToLWESwitchingKeyCompressed",
    "LWEToGLWEKeyCompressed",
    "LWESwitchingKeyCompressed",
    "GGLWEToGGSWKeyCompressed",
    "BlindRotationKey",
    "BlindRotationKeyCompressed",
    "CircuitBootstrappingKey",
    "BDDKey",
];

/// true for single-buffer types (ATOMIC demands the whole header unchanged on Err).
pub fn is_leaf_kind(kind: &str) -> bool {
    !matches!(
        kind,
        "GGLWEToGGSWKey"
            | "GGLWEToGGSWKeyCompressed"
            | "BlindRotationKey"
            | "BlindRotationKeyCompressed"
            | "CircuitBootstrappingKey"
            | "BDDKey"
    )
}

pub fn schema(kind: &str) -> Sch {
    match kind {
        "ScalarZnx" => sc::top(Sch::Scalar),
        "VecZnx" => sc::top(Sch::Vec),
        "MatZnx" => sc::top(Sch::Mat),
        "LWE" => sc::top(sc::lwe()),
        "GLWE" => sc::top(sc::glwe()),
        "GGLWE" | "GLWETensorKey" => sc::top(sc::gglwe()),
        "GGSW" => sc::top(sc::ggsw()),
        "GLWEPublicKey" => sc::top(sc::glwe_pk()),
        "GLWESwitchingKey" | "GLWEToLWEKey" | "LWEToGLWEKey" | "LWESwitchingKey" => sc::top(sc::glwe_swk()),
        "GLWEAutomorphismKey" => sc::top(sc::glwe_atk()),
        "GGLWEToGGSWKey" => sc::tsk(),
        "LWECompressed" => sc::top(sc::lwe_c()),
        "GLWECompressed" => sc::top(sc::glwe_c()),
        "GGLWECompressed" | "GLWETensorKeyCompressed" => sc::top(sc::gglwe_c()),
        "GGSWCompressed" => sc::top(sc::ggsw_c()),
        "GLWESwitchingKeyCompressed"
        | "GLWEToLWESwitchingKeyCompressed"
        | "LWEToGLWEKeyCompressed"
        | "LWESwitchingKeyCompressed" => sc::top(sc::glwe_swk_c()),
        "GLWEAutomorphismKeyCompressed" => sc::top(sc::glwe_atk_c()),
        "GGLWEToGGSWKeyCompressed" => sc::tsk_c(),
        "BlindRotationKey" => sc::brk(),
        "BlindRotationKeyCompressed" => sc::brk_c(),
        "CircuitBootstrappingKey" => sc::cbk(),
        "BDDKey" => sc::bdd(),
        _ => panic!("unknown kind {kind}"),
    }
}

pub fn alloc(kind: &str, l: &Lay) -> Box<dyn DynObj> {
    let n = Degree(l.n);
    let b = Base2K(l.base2k);
    let k = TorusPrecision(l.k);
    let ri = Rank(l.rank_in);
    let ro = Rank(l.rank_out);
    let dn = Dnum(l.dnum);
    let ds = Dsize(l.dsize);
    // single-dnum keys (dsize fixed to 1 by their alloc)
    let dn1 = Dnum(l.dnum.min(l.size()).max(1));
    let brk_layout = || BlindRotationKeyLayout {
        n_glwe: n,
        n_lwe: Degree(l.n_lwe),
        base2k: b,
        k,
        dnum: dn1,
        rank: ro,
    };
    let cbk_layout = || CircuitBootstrappingKeyLayout {
        brk_layout: brk_layout(),
        atk_layout: GLWEAutomorphismKeyLayout {
            n,
            base2k: b,
            k,
            rank: ro,
            dnum: dn,
            dsize: ds,
        },
        tsk_layout: GGLWEToGGSWKeyLayout {
            n,
            base2k: b,
            k,
            rank: ro,
            dnum: dn,
            dsize: ds,
        },
    };
    match kind {
        "ScalarZnx" => Box::new(W(ScalarZnx::alloc(l.n as usize, l.cols as usize))),
        "VecZnx" => Box::new(W(VecZnx::alloc(l.n as usize, l.cols as usize, l.size() as usize))),
        "MatZnx" => Box::new(W(MatZnx::alloc(
            l.n as usize,
            l.rows as usize,
            l.rank_in as usize,
            l.cols as usize,
            l.size() as usize,
        ))),
        "LWE" => Box::new(W(LWE::alloc(Degree(l.n_lwe), b, k))),
        "GLWE" => Box::new(W(GLWE::alloc(n, b, k, ro))),
        "GGLWE" => Box::new(W(GGLWE::alloc(n, b, k, ri, ro, dn, ds))),
        "GGSW" => Box::new(W(GGSW::alloc(n, b, k, ro, dn, ds))),
        "GLWEPublicKey" => Box::new(W(GLWEPublicKey::alloc(n, b, k, ro))),
        "GLWESwitchingKey" => Box::new(W(GLWESwitchingKey::alloc(n, b, k, ri, ro, dn, ds))),
        "GLWEAutomorphismKey" => Box::new(W(GLWEAutomorphismKey::alloc(n, b, k, ro, dn, ds))),
        "GLWETensorKey" => Box::new(W(GLWETensorKey::alloc(n, b, k, ro, dn, ds))),
        "GLWEToLWEKey" => Box::new(W(GLWEToLWEKey::alloc(n, b, k, ri, dn1))),
        "LWEToGLWEKey" => Box::new(W(LWEToGLWEKey::alloc(n, b, k, ro, dn1))),
        "LWESwitchingKey" => Box::new(W(LWESwitchingKey::alloc(n, b, k, dn1))),
        "GGLWEToGGSWKey" => Box::new(W(GGLWEToGGSWKey::alloc(n, b, k, ro, dn, ds))),
        "LWECompressed" => Box::new(W(LWECompressed::alloc(b, k))),
        "GLWECompressed" => Box::new(W(GLWECompressed::alloc(n, b, k, ro))),
        "GGLWECompressed" => Box::new(W(GGLWECompressed::alloc(n, b, k, ri, ro, dn, ds))),
        "GGSWCompressed" => Box::new(W(GGSWCompressed::alloc(n, b, k, ro, dn, ds))),
        "GLWESwitchingKeyCompressed" => Box::new(W(GLWESwitchingKeyCompressed::alloc(n, b, k, ri, ro, dn, ds))),
        "GLWEAutomorphismKeyCompressed" => Box::new(W(GLWEAutomorphismKeyCompressed::alloc(n, b, k, ro, dn, ds))),
        "GLWETensorKeyCompressed" => Box::new(W(GLWETensorKeyCompressed::alloc(n, b, k, ro, dn, ds))),
        "GLWEToLWESwitchingKeyCompressed" => Box::new(W(GLWEToLWESwitchingKeyCompressed::alloc(n, b, k, ri, dn1))),
        "LWEToGLWEKeyCompressed" => Box::new(W(LWEToGLWEKeyCompressed::alloc(n, b, k, ro, dn1))),
        "LWESwitchingKeyCompressed" => Box::new(W(LWESwitchingKeyCompressed::alloc(n, b, k, dn1))),
        "GGLWEToGGSWKeyCompressed" => Box::new(W(GGLWEToGGSWKeyCompressed::alloc(n, b, k, ro, dn, ds))),
        "BlindRotationKey" => Box::new(W(BlindRotationKey::<Vec<u8>, CGGI>::alloc(&brk_layout()))),
        "BlindRotationKeyCompressed" => Box::new(W(BlindRotationKeyCompressed::<Vec<u8>, CGGI>::alloc(&brk_layout()))),
        "CircuitBootstrappingKey" => Box::new(W(CircuitBootstrappingKey::<Vec<u8>, CGGI>::alloc_from_infos(&cbk_layout()))),
        "BDDKey" => Box::new(W(BDDKey::<Vec<u8>, CGGI>::alloc_from_infos(&BDDKeyLayout {
            cbt_layout: cbk_layout(),
            ks_glwe_layout: if l.ks_glwe {
                Some(GLWESwitchingKeyLayout {
                    n,
                    base2k: b,
                    k,
                    rank_in: ri,
                    rank_out: ro,
                    dnum: dn,
                    dsize: ds,
                })
            } else {
                None
            },
            ks_lwe_layout: GLWEToLWEKeyLayout {
                n,
                base2k: b,
                k,
                rank_in: ro,
                dnum: dn1,
            },
        }))),
        _ => panic!("unknown kind {kind}"),
    }
}
