//! Histories (operation + fault sequences) over serialisable objects, their executor and the
//! C18 oracles (RT, PREFIX, REJECT, NOPANIC, INV, ATOMIC).
use super::kinds::{self, DynObj, Lay};
use super::schema::{LeafKind, Parse, RecvInfo, Role, Sch, parse};
use crate::prng::Rng;
use crate::stream::{Faults, SimReader, SimWriter};
use crate::util::{catch, hex, panic_class, unhex};
use serde_json::{Value, json};
use std::collections::BTreeMap;

#[derive(Clone, Debug, PartialEq)]
pub enum Dmg {
    Truncate(usize),
    Patch { off: usize, bytes: Vec<u8> },
    Zero { off: usize, len: usize },
    Cut { off: usize, len: usize },
    Append(Vec<u8>),
    Flip { off: usize, bit: u8 },
}

#[derive(Clone, Debug, PartialEq)]
pub enum Op {
    /// model-encode a random valid blob shaped like `obj`'s current state; `shrink` lowers the
    /// active limb count of Vec leaves below capacity (sender with size < max_size)
    Craft { blob: usize, obj: usize, seed: u64, shrink: u32 },
    Write { obj: usize, blob: usize, faults: Faults },
    Damage { blob: usize, d: Dmg },
    Read { blob: usize, obj: usize, faults: Faults },
    SetSize { obj: usize, s: usize },
    Realloc { obj: usize, s: usize },
    Probe { obj: usize },
}

#[derive(Clone, Debug, PartialEq)]
pub struct History {
    pub kind: String,
    pub objs: Vec<Lay>,
    pub ops: Vec<Op>,
}

#[derive(Clone, Debug)]
pub struct Violation {
    pub oracle: String,
    /// stable sub-class used for known-finding matching and minimisation
    pub class: String,
    pub detail: String,
    pub op_index: usize,
}

#[derive(Default, Clone, Debug)]
pub struct Stats {
    pub counters: BTreeMap<String, u64>,
    /// hashes of (kind, op, fault kind, offset class, outcome, error kind) tuples
    pub tuples: std::collections::BTreeSet<u64>,
    /// hashes of receiver header transitions
    pub transitions: std::collections::BTreeSet<u64>,
}

impl Stats {
    pub fn bump(&mut self, k: &str) {
        *self.counters.entry(k.to_string()).or_insert(0) += 1;
    }
    pub fn add(&mut self, k: &str, n: u64) {
        if n > 0 {
            *self.counters.entry(k.to_string()).or_insert(0) += n;
        }
    }
    pub fn merge(&mut self, o: &Stats) {
        for (k, v) in &o.counters {
            *self.counters.entry(k.clone()).or_insert(0) += v;
        }
        self.tuples.extend(o.tuples.iter().copied());
        self.transitions.extend(o.transitions.iter().copied());
    }
}

// ---------- JSON ----------

fn faults_json(f: &Faults) -> Value {
    json!({"seed": f.seed, "short_pm": f.short_pm, "eintr_pm": f.eintr_pm, "err_at": f.err_at, "zero_at": f.zero_at})
}
fn faults_from(v: &Value) -> Faults {
    Faults {
        seed: v["seed"].as_u64().unwrap_or(0),
        short_pm: v["short_pm"].as_u64().unwrap_or(0) as u32,
        eintr_pm: v["eintr_pm"].as_u64().unwrap_or(0) as u32,
        err_at: v["err_at"].as_u64().map(|x| x as usize),
        zero_at: v["zero_at"].as_u64().map(|x| x as usize),
    }
}

impl Op {
    pub fn to_json(&self) -> Value {
        match self {
            Op::Craft { blob, obj, seed, shrink } => json!({"op":"craft","blob":blob,"obj":obj,"seed":seed,"shrink":shrink}),
            Op::Write { obj, blob, faults } => json!({"op":"write","obj":obj,"blob":blob,"faults":faults_json(faults)}),
            Op::Read { blob, obj, faults } => json!({"op":"read","blob":blob,"obj":obj,"faults":faults_json(faults)}),
            Op::SetSize { obj, s } => json!({"op":"set_size","obj":obj,"s":s}),
            Op::Realloc { obj, s } => json!({"op":"realloc","obj":obj,"s":s}),
            Op::Probe { obj } => json!({"op":"probe","obj":obj}),
            Op::Damage { blob, d } => {
                let dj = match d {
                    Dmg::Truncate(n) => json!({"kind":"truncate","len":n}),
                    Dmg::Patch { off, bytes } => json!({"kind":"patch","off":off,"bytes":hex(bytes)}),
                    Dmg::Zero { off, len } => json!({"kind":"zero","off":off,"len":len}),
                    Dmg::Cut { off, len } => json!({"kind":"cut","off":off,"len":len}),
                    Dmg::Append(b) => json!({"kind":"append","bytes":hex(b)}),
                    Dmg::Flip { off, bit } => json!({"kind":"flip","off":off,"bit":bit}),
                };
                json!({"op":"damage","blob":blob,"d":dj})
            }
        }
    }
    pub fn from_json(v: &Value) -> Op {
        let u = |k: &str| v[k].as_u64().unwrap() as usize;
        match v["op"].as_str().unwrap() {
            "craft" => Op::Craft {
                blob: u("blob"),
                obj: u("obj"),
                seed: v["seed"].as_u64().unwrap(),
                shrink: v["shrink"].as_u64().unwrap_or(0) as u32,
            },
            "write" => Op::Write {
                obj: u("obj"),
                blob: u("blob"),
                faults: faults_from(&v["faults"]),
            },
            "read" => Op::Read {
                blob: u("blob"),
                obj: u("obj"),
                faults: faults_from(&v["faults"]),
            },
            "set_size" => Op::SetSize { obj: u("obj"), s: u("s") },
            "realloc" => Op::Realloc { obj: u("obj"), s: u("s") },
            "probe" => Op::Probe { obj: u("obj") },
            "damage" => {
                let d = &v["d"];
                let du = |k: &str| d[k].as_u64().unwrap() as usize;
                let dm = match d["kind"].as_str().unwrap() {
                    "truncate" => Dmg::Truncate(du("len")),
                    "patch" => Dmg::Patch {
                        off: du("off"),
                        bytes: unhex(d["bytes"].as_str().unwrap()),
                    },
                    "zero" => Dmg::Zero {
                        off: du("off"),
                        len: du("len"),
                    },
                    "cut" => Dmg::Cut {
                        off: du("off"),
                        len: du("len"),
                    },
                    "append" => Dmg::Append(unhex(d["bytes"].as_str().unwrap())),
                    "flip" => Dmg::Flip {
                        off: du("off"),
                        bit: du("bit") as u8,
                    },
                    k => panic!("bad damage {k}"),
                };
                Op::Damage { blob: u("blob"), d: dm }
            }
            k => panic!("bad op {k}"),
        }
    }
}

impl History {
    pub fn to_json(&self) -> Value {
        json!({"kind": self.kind, "objs": self.objs.iter().map(|l| l.to_json()).collect::<Vec<_>>(),
               "ops": self.ops.iter().map(|o| o.to_json()).collect::<Vec<_>>()})
    }
    pub fn from_json(v: &Value) -> History {
        History {
            kind: v["kind"].as_str().unwrap().to_string(),
            objs: v["objs"].as_array().unwrap().iter().map(Lay::from_json).collect(),
            ops: v["ops"].as_array().unwrap().iter().map(Op::from_json).collect(),
        }
    }
}

// ---------- executor ----------

pub struct ObjState {
    pub obj: Box<dyn DynObj>,
    pub info: RecvInfo,
    pub snap: Parse,
    pub snap_bytes: Vec<u8>,
}

#[derive(Default, Clone)]
pub struct BlobState {
    pub bytes: Vec<u8>,
    pub exists: bool,
    pub hdr_damaged: bool,
}

pub struct Exec {
    pub kind: String,
    pub sch: Sch,
    pub leaf_kind: bool,
    pub objs: Vec<ObjState>,
    pub blobs: Vec<BlobState>,
}

fn viol(oracle: &str, class: String, detail: String, op_index: usize) -> Violation {
    Violation {
        oracle: oracle.to_string(),
        class,
        detail,
        op_index,
    }
}

/// Header bytes of a unit with the max_size field blanked when `blank` is set.
fn hdr(u: &super::schema::UnitRec, blank: bool) -> Vec<u8> {
    let mut h = u.header.clone();
    if blank && let Some(p) = u.max_size_pos {
        h[p..p + 8].fill(0);
    }
    h
}

impl Exec {
    pub fn new(h: &History) -> Result<Exec, String> {
        let sch = kinds::schema(&h.kind);
        let mut e = Exec {
            kind: h.kind.clone(),
            leaf_kind: kinds::is_leaf_kind(&h.kind),
            sch,
            objs: Vec::new(),
            blobs: Vec::new(),
        };
        for l in &h.objs {
            let obj = catch(|| kinds::alloc(&h.kind, l)).map_err(|p| format!("INADMISSIBLE alloc({}, {:?}) panicked: {p}", h.kind, l))?;
            let mut st = ObjState {
                obj,
                info: RecvInfo::default(),
                snap: Parse::default(),
                snap_bytes: Vec::new(),
            };
            let mut w = SimWriter::new(&Faults::none());
            st.obj.write(&mut w).map_err(|e| format!("fresh write failed: {e}"))?;
            let p = parse(&e.sch, &w.buf, None);
            if p.reject.is_some() || p.consumed != w.buf.len() {
                return Err(format!(
                    "model grammar does not parse a fresh {} blob: {:?} consumed {} of {}",
                    h.kind,
                    p.reject,
                    p.consumed,
                    w.buf.len()
                ));
            }
            st.info = p.recv_info();
            if let Some((_, _, _, _, dl)) = st.obj.inspect()
                && st.info.caps.get("self").copied() != Some(dl as u64)
            {
                return Err(format!(
                    "capacity model wrong for {}: model {:?}, data.len() {dl}",
                    h.kind,
                    st.info.caps.get("self")
                ));
            }
            st.snap = p;
            st.snap_bytes = w.buf;
            e.objs.push(st);
        }
        Ok(e)
    }

    fn blob_mut(&mut self, b: usize) -> &mut BlobState {
        if self.blobs.len() <= b {
            self.blobs.resize(b + 1, BlobState::default());
        }
        &mut self.blobs[b]
    }

    /// Re-serialises object `o` fault-free, parses it with the model and checks INV.
    fn observe(&mut self, o: usize, op_index: usize) -> Result<(), Violation> {
        let st = &mut self.objs[o];
        let mut w = SimWriter::new(&Faults::none());
        let r = catch(|| st.obj.write(&mut w));
        match r {
            Err(p) => {
                return Err(viol(
                    "INV",
                    "reserialise_panic".into(),
                    format!("re-serialising the object panicked: {p}"),
                    op_index,
                ));
            }
            Ok(Err(e)) => {
                return Err(viol(
                    "INV",
                    "reserialise_err".into(),
                    format!("re-serialising the object failed: {e}"),
                    op_index,
                ));
            }
            Ok(Ok(())) => {}
        }
        let p = parse(&self.sch, &w.buf, None);
        if p.reject.is_some() || p.consumed != w.buf.len() {
            return Err(viol(
                "INV",
                "reserialise_unparseable".into(),
                format!("object's own serialisation is not well formed: {:?}", p.reject),
                op_index,
            ));
        }
        // CANON: the writer must emit map-like collections in a canonical (ascending) order, otherwise
        // blobs of equal objects differ from process to process
        let gals: Vec<i64> = p.fields.iter().filter(|f| f.role == Role::Gal).map(|f| f.val as i64).collect();
        if gals.windows(2).any(|w| w[0] >= w[1]) {
            return Err(viol(
                "CANON",
                "galois_keys_not_ascending".into(),
                format!("write_to emitted the Galois-element map in the order {gals:?}"),
                op_index,
            ));
        }
        for u in &p.units {
            let Some(l) = &u.leaf else { continue };
            let cap = st.info.caps.get(&u.key).copied().unwrap_or(0);
            if l.len > cap || l.product() > cap as u128 {
                return Err(viol(
                    "INV",
                    "dims_exceed_buffer".into(),
                    format!(
                        "unit {}: n={} cols={} size={} rows={} cols_in={} -> {} bytes > buffer {} bytes",
                        u.key,
                        l.n,
                        l.cols,
                        l.size,
                        l.rows,
                        l.cols_in,
                        l.product(),
                        cap
                    ),
                    op_index,
                ));
            }
            if l.kind == LeafKind::Vec {
                if l.size > l.max_size {
                    return Err(viol(
                        "INV",
                        "size_gt_max_size".into(),
                        format!("unit {}: size={} > max_size={}", u.key, l.size, l.max_size),
                        op_index,
                    ));
                }
                if l.product_max() > cap as u128 {
                    return Err(viol(
                        "INV",
                        "max_size_exceeds_buffer".into(),
                        format!(
                            "unit {}: n={} cols={} max_size={} -> {} bytes > buffer {} bytes (set_size(max_size) then at() is out of bounds)",
                            u.key,
                            l.n,
                            l.cols,
                            l.max_size,
                            l.product_max(),
                            cap
                        ),
                        op_index,
                    ));
                }
            }
        }
        if let Some((n, cols, size, max_size, dl)) = st.obj.inspect() {
            let prod = (n as u128) * (cols as u128) * (size as u128) * 8;
            let prodm = (n as u128) * (cols as u128) * (max_size as u128) * 8;
            if prod > dl as u128 || prodm > dl as u128 || size > max_size {
                return Err(viol(
                    "INV",
                    "direct_dims_exceed_buffer".into(),
                    format!("direct view: n={n} cols={cols} size={size} max_size={max_size} data.len()={dl}"),
                    op_index,
                ));
            }
        }
        st.snap = p;
        st.snap_bytes = w.buf;
        Ok(())
    }

    pub fn run(&mut self, h: &History, stats: &mut Stats) -> Result<(), Violation> {
        for (i, op) in h.ops.iter().enumerate() {
            self.step(op, i, stats)?;
        }
        Ok(())
    }

    pub fn step(&mut self, op: &Op, i: usize, stats: &mut Stats) -> Result<(), Violation> {
        match op {
            Op::Craft { blob, obj, seed, shrink } => {
                if *obj >= self.objs.len() {
                    return Ok(());
                }
                let bytes = craft(&self.objs[*obj].snap, &self.objs[*obj].snap_bytes, *seed, *shrink);
                let b = self.blob_mut(*blob);
                b.bytes = bytes;
                b.exists = true;
                b.hdr_damaged = false;
                stats.bump("op.craft");
            }
            Op::Write { obj, blob, faults } => {
                if *obj >= self.objs.len() {
                    return Ok(());
                }
                self.op_write(*obj, *blob, faults, i, stats)?;
            }
            Op::Damage { blob, d } => {
                if *blob >= self.blobs.len() || !self.blobs[*blob].exists {
                    return Ok(());
                }
                self.op_damage(*blob, d, stats);
            }
            Op::Read { blob, obj, faults } => {
                if *obj >= self.objs.len() || *blob >= self.blobs.len() || !self.blobs[*blob].exists {
                    return Ok(());
                }
                self.op_read(*blob, *obj, faults, i, stats)?;
            }
            Op::SetSize { obj, s } => {
                if *obj >= self.objs.len() {
                    return Ok(());
                }
                let max = self.objs[*obj].snap.units.first().and_then(|u| u.leaf.as_ref()).map(|l| l.max_size).unwrap_or(0);
                if (*s as u64) <= max {
                    let st = &mut self.objs[*obj];
                    let r = catch(|| st.obj.set_size(*s));
                    if let Err(p) = r {
                        return Err(viol("NOPANIC", format!("set_size:{}", panic_class(&p)), p, i));
                    }
                    stats.bump("op.set_size");
                    self.observe(*obj, i)?;
                }
            }
            Op::Realloc { obj, s } => {
                if *obj >= self.objs.len() || *s < 1 || *s > 8 {
                    return Ok(());
                }
                // reallocation multiplies whatever n and cols the object holds: after an accepted header with a
                // zero limb count they may be huge (byte invariant still true); that is not a serialisation matter
                let plausible = self.objs[*obj]
                    .snap
                    .units
                    .first()
                    .and_then(|u| u.leaf.as_ref())
                    .is_some_and(|l| (l.n as u128) * (l.cols as u128) * (*s as u128) * 8 <= 1 << 24);
                if !plausible {
                    return Ok(());
                }
                let st = &mut self.objs[*obj];
                let r = catch(|| st.obj.realloc(*s));
                match r {
                    Err(p) => return Err(viol("NOPANIC", format!("realloc:{}", panic_class(&p)), p, i)),
                    Ok(true) => {
                        if let Some((_, _, _, _, dl)) = st.obj.inspect() {
                            st.info.caps.insert("self".into(), dl as u64);
                        }
                        stats.bump("op.realloc");
                        self.observe(*obj, i)?;
                    }
                    Ok(false) => {}
                }
            }
            Op::Probe { obj } => {
                if *obj >= self.objs.len() {
                    return Ok(());
                }
                let st = &mut self.objs[*obj];
                let r = catch(|| st.obj.probe());
                match r {
                    Err(p) => return Err(viol("NOPANIC", format!("probe:{}", panic_class(&p)), p, i)),
                    Ok(Some(_)) => stats.bump("op.probe"),
                    Ok(None) => {}
                }
            }
        }
        Ok(())
    }

    fn op_write(&mut self, o: usize, b: usize, faults: &Faults, i: usize, stats: &mut Stats) -> Result<(), Violation> {
        let reference = self.objs[o].snap_bytes.clone();
        let mut w = SimWriter::new(faults);
        let st = &self.objs[o];
        let r = catch(|| st.obj.write(&mut w));
        stats.add("fault.short_write", w.fired.short);
        stats.add("fault.eintr_w", w.fired.eintr);
        stats.add("fault.io_err_w", w.fired.hard_err.min(1));
        stats.add("fault.write_zero", w.fired.write_zero.min(1));
        stats.bump("op.write");
        let res = match r {
            Err(p) => return Err(viol("NOPANIC", format!("write:{}", panic_class(&p)), p, i)),
            Ok(x) => x,
        };
        let cut = [faults.err_at, faults.zero_at].iter().flatten().copied().min();
        let must_fail = cut.is_some_and(|c| c < reference.len());
        let outcome = if res.is_ok() { "ok" } else { "err" };
        stats.tuples.insert(crate::util::fnv(
            format!("{}|write|{}|{}|{}", self.kind, fault_kind(faults), off_class(&self.objs[o].snap, cut), outcome).as_bytes(),
        ));
        if must_fail {
            if res.is_ok() {
                return Err(viol(
                    "PREFIX",
                    "write_ok_despite_error".into(),
                    format!("writer failed after {} bytes but write_to returned Ok", cut.unwrap()),
                    i,
                ));
            }
            let c = cut.unwrap();
            if w.buf != reference[..c] {
                return Err(viol(
                    "PREFIX",
                    "accepted_bytes_not_prefix".into(),
                    format!("bytes accepted before the failure at {c} are not the first {c} bytes of the fault-free encoding"),
                    i,
                ));
            }
            stats.bump("probe.writer_crash_prefix_checked");
        } else {
            if let Err(e) = &res {
                return Err(viol(
                    "RT",
                    "write_failed_under_benign_faults".into(),
                    format!("write_to failed although only short writes/EINTR were injected: {e}"),
                    i,
                ));
            }
            if w.buf != reference {
                return Err(viol(
                    "RT",
                    "bytes_differ_under_benign_faults".into(),
                    "bytes written under short writes/EINTR differ from the fault-free encoding".into(),
                    i,
                ));
            }
        }
        // sender unchanged
        let before = reference;
        self.observe(o, i)?;
        if self.objs[o].snap_bytes != before {
            return Err(viol("PREFIX", "sender_changed".into(), "write_to modified the sender".into(), i));
        }
        let bs = self.blob_mut(b);
        bs.bytes = w.buf;
        bs.exists = true;
        bs.hdr_damaged = false;
        Ok(())
    }

    fn op_damage(&mut self, b: usize, d: &Dmg, stats: &mut Stats) {
        let p = parse(&self.sch, &self.blobs[b].bytes, None);
        let bs = &mut self.blobs[b];
        let len = bs.bytes.len();
        // is [off, off+n) entirely inside payload/seed bytes (i.e. touches no parsed field)?
        let payload_only = |off: usize, n: usize| -> bool {
            if p.reject.is_some() || off + n > p.consumed {
                return false;
            }
            !p.fields.iter().any(|f| off < f.off + f.width && f.off < off + n)
        };
        match d {
            Dmg::Truncate(n) => {
                if *n < len {
                    bs.bytes.truncate(*n);
                    bs.hdr_damaged = true;
                    stats.bump("fault.truncate");
                }
            }
            Dmg::Patch { off, bytes } => {
                if off + bytes.len() <= len && !bytes.is_empty() {
                    if bs.bytes[*off..off + bytes.len()] != bytes[..] {
                        if !payload_only(*off, bytes.len()) {
                            bs.hdr_damaged = true;
                        }
                        bs.bytes[*off..off + bytes.len()].copy_from_slice(bytes);
                        stats.bump("fault.field_subst");
                    }
                }
            }
            Dmg::Zero { off, len: n } => {
                if off + n <= len && *n > 0 {
                    if !payload_only(*off, *n) {
                        bs.hdr_damaged = true;
                    }
                    bs.bytes[*off..off + n].fill(0);
                    stats.bump("fault.torn_block_zeroed");
                }
            }
            Dmg::Cut { off, len: n } => {
                if off + n <= len && *n > 0 {
                    bs.bytes.drain(*off..off + n);
                    bs.hdr_damaged = true;
                    stats.bump("fault.torn_block_lost");
                }
            }
            Dmg::Append(x) => {
                bs.bytes.extend_from_slice(x);
                stats.bump("fault.append_garbage");
            }
            Dmg::Flip { off, bit } => {
                if *off < len {
                    if !payload_only(*off, 1) {
                        bs.hdr_damaged = true;
                    }
                    bs.bytes[*off] ^= 1 << (bit & 7);
                    stats.bump("fault.bitflip");
                }
            }
        }
    }

    fn op_read(&mut self, b: usize, o: usize, faults: &Faults, i: usize, stats: &mut Stats) -> Result<(), Violation> {
        let stream = self.blobs[b].bytes.clone();
        let hdr_damaged = self.blobs[b].hdr_damaged;
        let judge = parse(&self.sch, &stream, Some(&self.objs[o].info));
        let before = self.objs[o].snap.clone();
        let before_bytes = self.objs[o].snap_bytes.clone();

        let mut rd = SimReader::new(&stream, faults);
        let st = &mut self.objs[o];
        let r = catch(|| st.obj.read(&mut rd));
        let consumed = rd.pos;
        stats.add("fault.short_read", rd.fired.short);
        stats.add("fault.eintr_r", rd.fired.eintr);
        stats.add("fault.io_err_r", rd.fired.hard_err.min(1));
        stats.add("fault.eof", rd.fired.eof.min(1));
        stats.bump("op.read");

        let res = match r {
            Err(p) => {
                return Err(viol(
                    "NOPANIC",
                    format!("read:{}", panic_class(&p)),
                    format!("read_from panicked: {p}"),
                    i,
                ));
            }
            Ok(x) => x,
        };

        let hard_before_end = faults.err_at.is_some_and(|e| e < judge.consumed);
        let must_err = judge.reject.is_some() || hard_before_end;
        let must_ok = !must_err && !hdr_damaged && judge.sane;
        let errkind = match &res {
            Ok(()) => "-".to_string(),
            Err(e) => format!("{:?}", e.kind()),
        };
        let rej = judge.reject.as_ref().map(|r| r.class()).unwrap_or(if hard_before_end { "io_err" } else { "none" });
        stats.tuples.insert(crate::util::fnv(
            format!(
                "{}|read|{}|{}|{}|{}|{}",
                self.kind,
                fault_kind(faults),
                rej,
                off_class(&judge, Some(judge.consumed.min(stream.len()))),
                if res.is_ok() { "ok" } else { "err" },
                errkind
            )
            .as_bytes(),
        ));
        stats.bump(&format!("verdict.{}", if must_err { "must_err" } else if must_ok { "must_ok" } else { "either" }));
        if let Some(rj) = &judge.reject {
            stats.bump(&format!("reject.{}", rj.class()));
        }

        // INV first: it is the memory-safety precondition for everything else.
        self.observe(o, i)?;
        let after = &self.objs[o].snap;
        let after_bytes = &self.objs[o].snap_bytes;
        let caps = &self.objs[o].info.caps;

        // legit clamp of max_size: the stream announces more limbs of capacity than the receiver has
        let clamp = |key: &str, p: &Parse| -> bool {
            p.unit(key)
                .and_then(|u| u.leaf.as_ref())
                .is_some_and(|l| l.product_max() > caps.get(key).copied().unwrap_or(0) as u128)
        };

        match &res {
            Ok(()) => {
                if must_err {
                    let why = judge
                        .reject
                        .as_ref()
                        .map(|r| format!("{r:?}"))
                        .unwrap_or_else(|| "reader hard error before the end of the object".into());
                    return Err(viol(
                        "REJECT",
                        format!("accepted:{rej}"),
                        format!("stream must be rejected ({why}) but read_from returned Ok"),
                        i,
                    ));
                }
                if consumed != judge.consumed {
                    return Err(viol(
                        "RT",
                        "framing".into(),
                        format!("read_from consumed {consumed} bytes, the encoding is {} bytes", judge.consumed),
                        i,
                    ));
                }
                // every unit of the receiver: header equals the stream's (or unchanged if absent from the stream)
                for u in &after.units {
                    let exp = match judge.unit(&u.key) {
                        Some(su) => {
                            let bl = clamp(&u.key, &judge);
                            (hdr(su, bl), bl)
                        }
                        None => match before.unit(&u.key) {
                            Some(bu) => (hdr(bu, false), false),
                            None => continue,
                        },
                    };
                    if hdr(u, exp.1) != exp.0 {
                        return Err(viol(
                            "RT",
                            "header_mismatch_after_ok".into(),
                            format!(
                                "unit {}: metadata after a successful read {} differ from the stream's {}",
                                u.key,
                                hex(&u.header),
                                hex(&exp.0)
                            ),
                            i,
                        ));
                    }
                }
                if must_ok {
                    // full equality with the stream (modulo legit max_size clamp)
                    let mut a = after_bytes.clone();
                    let mut s = stream[..judge.consumed].to_vec();
                    if a.len() == s.len() {
                        for f in judge.fields.iter().filter(|f| f.role == Role::MaxSize) {
                            if let Some(ui) = f.unit
                                && clamp(&judge.units[ui].key, &judge)
                            {
                                a[f.off..f.off + 8].fill(0);
                                s[f.off..f.off + 8].fill(0);
                            }
                        }
                    }
                    if a != s {
                        let at = a.iter().zip(s.iter()).position(|(x, y)| x != y).unwrap_or(a.len().min(s.len()));
                        return Err(viol(
                            "RT",
                            "roundtrip_mismatch".into(),
                            format!(
                                "receiver re-serialises to {} bytes, stream is {} bytes, first difference at offset {at}",
                                a.len(),
                                s.len()
                            ),
                            i,
                        ));
                    }
                    stats.bump("probe.roundtrip_equal");
                }
            }
            Err(e) => {
                if must_ok {
                    return Err(viol(
                        "RT",
                        "valid_stream_rejected".into(),
                        format!("a complete valid encoding that fits the receiver was rejected: {e}"),
                        i,
                    ));
                }
                // ATOMIC
                for u in &after.units {
                    let Some(bu) = before.unit(&u.key) else { continue };
                    if u.header == bu.header {
                        continue;
                    }
                    if self.leaf_kind {
                        return Err(viol(
                            "ATOMIC",
                            "metadata_changed_on_err".into(),
                            format!(
                                "read_from returned Err({e}) but the receiver's metadata changed: before {} after {}",
                                hex(&bu.header),
                                hex(&u.header)
                            ),
                            i,
                        ));
                    }
                    // composite: unit must be entirely as in the stream
                    let ok = judge
                        .units
                        .iter()
                        .filter(|su| su.key == u.key && su.end.is_some())
                        .any(|su| hdr(su, clamp(&u.key, &judge)) == hdr(u, clamp(&u.key, &judge)));
                    if !ok {
                        return Err(viol(
                            "ATOMIC",
                            "element_half_updated_on_err".into(),
                            format!(
                                "read_from returned Err({e}); element {} is neither as before ({}) nor as in the stream: {}",
                                u.key,
                                hex(&bu.header),
                                hex(&u.header)
                            ),
                            i,
                        ));
                    }
                }
                if after_bytes != &before_bytes {
                    stats.bump("probe.payload_torn_after_failed_read");
                }
                if consumed > 0 && self.leaf_kind {
                    let first_payload = judge.units.first().and_then(|u| u.leaf.as_ref()).map(|l| l.payload_off);
                    if first_payload.is_some_and(|p| consumed > p) {
                        stats.bump("probe.failure_after_partial_payload");
                    }
                }
            }
        }
        // transition measure
        let mut t = crate::util::fnv(self.kind.as_bytes());
        for u in &before.units {
            t = crate::util::fnv_mix(t, crate::util::fnv(&u.header));
        }
        t = crate::util::fnv_mix(t, 0x7777);
        for u in &self.objs[o].snap.units {
            t = crate::util::fnv_mix(t, crate::util::fnv(&u.header));
        }
        stats.transitions.insert(t);
        Ok(())
    }
}

fn fault_kind(f: &Faults) -> &'static str {
    if f.err_at.is_some() {
        "io_err"
    } else if f.zero_at.is_some() {
        "write_zero"
    } else if f.short_pm > 0 && f.eintr_pm > 0 {
        "short+eintr"
    } else if f.short_pm > 0 {
        "short"
    } else if f.eintr_pm > 0 {
        "eintr"
    } else {
        "none"
    }
}

/// Class of a byte offset relative to a parse: which kind of field it falls in.
pub fn off_class(p: &Parse, off: Option<usize>) -> String {
    let Some(off) = off else { return "-".into() };
    for f in &p.fields {
        if off >= f.off && off < f.off + f.width {
            return format!("{:?}:{}", f.role, f.name);
        }
        if off == f.off + f.width {
            return format!("after:{:?}:{}", f.role, f.name);
        }
    }
    if off >= p.consumed { "end".into() } else { "payload".into() }
}

/// Builds a valid encoding shaped like `bytes` (parsed as `p`) with random payload, seeds and
/// wrapper scalars; `shrink` > 0 lowers the active size of Vec leaves (size < max_size).
pub fn craft(p: &Parse, bytes: &[u8], seed: u64, shrink: u32) -> Vec<u8> {
    let mut rng = Rng::new(seed);
    let mut out = vec![0u8; bytes.len()];
    rng.fill(&mut out);
    for f in &p.fields {
        let keep = match f.role {
            Role::Dim | Role::MaxSize | Role::Len | Role::Count | Role::Gal | Role::Tag | Role::SeedLen => true,
            Role::Scalar32 | Role::Scalar64 | Role::DistWord => false,
        };
        if keep {
            out[f.off..f.off + f.width].copy_from_slice(&bytes[f.off..f.off + f.width]);
        } else {
            let v: u64 = match f.role {
                Role::Scalar32 => rng.range(1, 30),
                Role::Scalar64 => {
                    let m = (rng.range(0, 40) * 2 + 1) as i64;
                    (if rng.chance(500) { -m } else { m }) as u64
                }
                Role::DistWord => {
                    let tag = rng.range(0, 6);
                    let payload = match tag {
                        0 | 2 | 4 => rng.range(0, 64),
                        1 | 3 => rng.next() & 0x00FF_FFFF_FFFF_FFFF,
                        _ => 0,
                    };
                    (tag << 56) | payload
                }
                _ => unreachable!(),
            };
            out[f.off..f.off + f.width].copy_from_slice(&v.to_le_bytes()[..f.width]);
        }
    }
    if shrink > 0 {
        // process Vec leaves from the last to the first so earlier offsets stay valid
        let mut vec_units: Vec<&super::schema::UnitRec> =
            p.units.iter().filter(|u| u.leaf.as_ref().is_some_and(|l| l.kind == LeafKind::Vec)).collect();
        vec_units.reverse();
        for u in vec_units {
            let l = u.leaf.as_ref().unwrap();
            if l.size == 0 || (l.size <= 1 && shrink != 255) {
                continue;
            }
            // shrink = 255: a sender whose active size was set to zero (legal: set_size(0))
            let ns = if shrink == 255 { 0 } else { l.size.saturating_sub(shrink as u64).max(1) };
            let nlen = l.n * l.cols * ns * 8;
            // fields: n cols size max_size len are the 40 bytes before payload_off
            let size_off = l.payload_off - 24;
            let len_off = l.payload_off - 8;
            out[size_off..size_off + 8].copy_from_slice(&ns.to_le_bytes());
            out[len_off..len_off + 8].copy_from_slice(&nlen.to_le_bytes());
            out.drain(l.payload_off + nlen as usize..l.payload_off + l.len as usize);
        }
    }
    out
}
