//! Case generation for C18: exhaustive single-fault enumeration per (kind, sender/receiver
//! layout pair) and seeded random histories (swarm style), plus the minimiser.
use super::history::{Dmg, Exec, History, Op, Stats, Violation};
use super::kinds::{self, KINDS, Lay};
use super::schema::{Field, LeafKind, Parse, Role, parse};
use crate::prng::{Rng, mix};
use crate::stream::Faults;
use crate::util::{fnv, fnv_mix};

pub const PAIRS: &[&str] = &["same", "larger", "smaller", "shrunk_same", "shrunk_smaller", "zero_size_same"];

/// Number of enumeration groups: kind x pair x layout index.
pub fn enum_groups(layouts_per_kind: u64) -> u64 {
    KINDS.len() as u64 * PAIRS.len() as u64 * layouts_per_kind
}

pub struct GroupSpec {
    pub kind: &'static str,
    pub pair: &'static str,
    pub sender: Lay,
    pub receiver: Lay,
    pub shrink: u32,
}

pub fn group_spec(seed: u64, g: u64, layouts_per_kind: u64, small: bool) -> GroupSpec {
    let kind = KINDS[(g % KINDS.len() as u64) as usize];
    let rest = g / KINDS.len() as u64;
    let pair = PAIRS[(rest % PAIRS.len() as u64) as usize];
    let li = rest / PAIRS.len() as u64;
    debug_assert!(li < layouts_per_kind);
    // the layout depends on (kind, li) only, so that all pairs of one layout share the sender
    let mut rng = Rng::new(mix(seed, 0xE17, (g % KINDS.len() as u64) * 1000 + li));
    let mut sender = Lay::random(&mut rng, small);
    // optional parts (BDDKey's GLWE switching key) are present for every other capacity pair, so that even a
    // single-layout tier enumerates the presence tag in both states
    sender.ks_glwe = (rest % PAIRS.len() as u64) % 2 == 0;
    let mut rng2 = Rng::new(mix(seed, 0xE18, g));
    let (receiver, shrink) = match pair {
        "same" => (sender.clone(), 0),
        "larger" => (sender.resized(&mut rng2, true), 0),
        "smaller" => (sender.resized(&mut rng2, false), 0),
        "shrunk_same" => (sender.clone(), 1),
        "zero_size_same" => (sender.clone(), 255),
        _ => (sender.resized(&mut rng2, false), 1),
    };
    GroupSpec {
        kind,
        pair,
        sender,
        receiver,
        shrink,
    }
}

fn setup_ops(seed: u64, shrink: u32) -> Vec<Op> {
    vec![
        Op::Craft {
            blob: 0,
            obj: 0,
            seed: mix(seed, 1, 0),
            shrink,
        },
        Op::Read {
            blob: 0,
            obj: 0,
            faults: Faults::none(),
        },
        Op::Craft {
            blob: 2,
            obj: 1,
            seed: mix(seed, 2, 0),
            shrink: 0,
        },
        Op::Read {
            blob: 2,
            obj: 1,
            faults: Faults::none(),
        },
    ]
}

pub fn dict(f: &Field, recv_val: Option<u64>) -> Vec<u64> {
    let v = f.val;
    let mut d: Vec<u64> = match f.width {
        8 => vec![
            0,
            1,
            1 << 31,
            (1 << 32) - 1,
            1 << 32,
            1 << 61,
            1 << 63,
            u64::MAX,
            v.wrapping_add(1),
            v.wrapping_sub(1),
            v.wrapping_mul(2),
            v.wrapping_add(8),
        ],
        4 => vec![0, 1, 1 << 31, (1 << 32) - 1, (v + 1) & 0xffff_ffff, v.wrapping_sub(1) & 0xffff_ffff],
        _ => vec![0, 1, 2, 255],
    };
    if f.role == Role::DistWord {
        d = (0..=8u64).map(|t| (t << 56) | (v & 0x00FF_FFFF_FFFF_FFFF)).collect();
        d.push(u64::MAX);
        d.push(0);
    }
    if let Some(r) = recv_val {
        d.push(r);
        d.push(r.wrapping_add(1));
        d.push(r.wrapping_sub(1));
    }
    d.sort_unstable();
    d.dedup();
    d.retain(|x| *x != v);
    d
}

/// Offsets worth faulting: all of them for small blobs, boundaries +-64 and 256 seeded others otherwise.
pub fn offsets(p: &Parse, len: usize, seed: u64) -> Vec<usize> {
    if len <= 8192 {
        return (0..=len).collect();
    }
    let mut v: Vec<usize> = Vec::new();
    let mut bounds: Vec<usize> = p.fields.iter().flat_map(|f| [f.off, f.off + f.width]).collect();
    bounds.extend(p.units.iter().flat_map(|u| [u.start, u.end.unwrap_or(u.start)]));
    bounds.push(len);
    for b in bounds {
        for d in 0..=64usize {
            if b + d <= len {
                v.push(b + d);
            }
            if b >= d {
                v.push(b - d);
            }
        }
    }
    let mut rng = Rng::new(seed);
    for _ in 0..256 {
        v.push(rng.below(len as u64 + 1) as usize);
    }
    v.sort_unstable();
    v.dedup();
    v
}

/// wrap_header corruptions: per leaf dimension, the increment that makes the product wrap mod 2^64
/// back onto the stored byte length.
pub fn wrap_patches(p: &Parse) -> Vec<Dmg> {
    let mut out = Vec::new();
    for (ui, u) in p.units.iter().enumerate() {
        let Some(l) = &u.leaf else { continue };
        let dims: Vec<&Field> = p.fields.iter().filter(|f| f.unit == Some(ui) && f.role == Role::Dim).collect();
        for d in &dims {
            let others: u128 = dims
                .iter()
                .filter(|x| x.off != d.off)
                .fold(1u128, |a, x| a.saturating_mul(x.val as u128));
            if others == 0 || others > u64::MAX as u128 {
                continue;
            }
            let v2 = (others as u64).trailing_zeros();
            if v2 > 60 {
                continue;
            }
            let delta: u64 = 1u64 << (61 - v2);
            let nv = d.val.wrapping_add(delta);
            out.push(Dmg::Patch {
                off: d.off,
                bytes: nv.to_le_bytes().to_vec(),
            });
        }
        // zero-length variant: n = 2^61, len = 0 (payload stays behind as trailing bytes)
        if l.kind != LeafKind::Mat
            && let Some(nf) = dims.first()
        {
            let lenf = p.fields.iter().find(|f| f.unit == Some(ui) && f.role == Role::Len).unwrap();
            let mut bytes = Vec::new();
            // patch n..len contiguous region: rebuild from n field to len field
            let start = nf.off;
            let end = lenf.off + 8;
            let mut region = vec![0u8; end - start];
            for f in p.fields.iter().filter(|f| f.unit == Some(ui) && f.off >= start && f.off < end) {
                let val: u64 = if f.off == nf.off {
                    1 << 61
                } else if f.role == Role::Len {
                    0
                } else if f.role == Role::Dim {
                    1
                } else {
                    f.val
                };
                region[f.off - start..f.off - start + f.width].copy_from_slice(&val.to_le_bytes()[..f.width]);
            }
            bytes.extend_from_slice(&region);
            out.push(Dmg::Patch { off: start, bytes });
        }
    }
    out
}

/// Two header fields of one leaf changed CONSISTENTLY, so that the byte length still equals the product of
/// the dimensions: one dimension halved and another doubled, two dimensions swapped, the limb count and
/// max_size raised together (payload extended accordingly is not possible in place, so that one is left to the
/// length check). A reader that compares products instead of factors lets these through.
pub fn consistent_patches(p: &Parse) -> Vec<Dmg> {
    let mut out = Vec::new();
    for (ui, u) in p.units.iter().enumerate() {
        if u.leaf.is_none() {
            continue;
        }
        let fs: Vec<&Field> = p.fields.iter().filter(|f| f.unit == Some(ui) && f.width == 8).collect();
        let dims: Vec<&Field> = fs.iter().copied().filter(|f| f.role == Role::Dim).collect();
        let region = |changes: &[(usize, u64)]| -> Dmg {
            let start = changes.iter().map(|c| c.0).min().unwrap();
            let end = changes.iter().map(|c| c.0).max().unwrap() + 8;
            let mut bytes = vec![0u8; end - start];
            for f in fs.iter().filter(|f| f.off >= start && f.off < end) {
                let v = changes.iter().find(|c| c.0 == f.off).map(|c| c.1).unwrap_or(f.val);
                bytes[f.off - start..f.off - start + 8].copy_from_slice(&v.to_le_bytes());
            }
            // fields of other widths inside the region do not occur in leaf headers (all u64)
            Dmg::Patch { off: start, bytes }
        };
        for (i, a) in dims.iter().enumerate() {
            for b in dims.iter().skip(i + 1) {
                if a.val >= 2 && a.val % 2 == 0 {
                    out.push(region(&[(a.off, a.val / 2), (b.off, b.val.wrapping_mul(2))]));
                }
                if b.val >= 2 && b.val % 2 == 0 {
                    out.push(region(&[(a.off, a.val.wrapping_mul(2)), (b.off, b.val / 2)]));
                }
                if a.val != b.val {
                    out.push(region(&[(a.off, b.val), (b.off, a.val)]));
                }
            }
        }
        // limb count and max_size raised / lowered together
        if let (Some(sz), Some(ms)) = (dims.last(), fs.iter().find(|f| f.role == Role::MaxSize)) {
            out.push(region(&[(sz.off, sz.val.wrapping_add(1)), (ms.off, ms.val.wrapping_add(1))]));
            if sz.val >= 2 {
                out.push(region(&[(sz.off, sz.val - 1), (ms.off, ms.val.saturating_sub(1))]));
            }
        }
    }
    out
}

pub struct GroupResult {
    pub cases: u64,
    pub hash: u64,
    pub violations: Vec<(History, Violation)>,
    pub sample: Option<History>,
}

/// Runs every case of enumeration group `g`. `on_case` is called with the history before it executes
/// (crash attribution).
pub fn run_group(
    seed: u64,
    g: u64,
    layouts_per_kind: u64,
    small: bool,
    stats: &mut Stats,
    on_case: &mut dyn FnMut(&History),
) -> Result<GroupResult, String> {
    let spec = group_spec(seed, g, layouts_per_kind, small);
    let gseed = mix(seed, 0xE19, g);
    let base = History {
        kind: spec.kind.to_string(),
        objs: vec![spec.sender.clone(), spec.receiver.clone()],
        ops: setup_ops(gseed, spec.shrink),
    };
    // dry run of the setup + a fault-free write to learn the pristine blob and its structure
    let mut dry = base.clone();
    dry.ops.push(Op::Write {
        obj: 0,
        blob: 1,
        faults: Faults::none(),
    });
    on_case(&dry);
    let mut res = GroupResult {
        cases: 0,
        hash: fnv(format!("{g}").as_bytes()),
        violations: Vec::new(),
        sample: None,
    };
    let mut ex = Exec::new(&dry)?;
    let mut s0 = Stats::default();
    if let Err(v) = ex.run(&dry, &mut s0) {
        // the setup itself violates an oracle: report once, no enumeration possible
        res.cases = 1;
        res.violations.push((dry, v));
        return Ok(res);
    }
    stats.merge(&s0);
    let blob = ex.blobs[1].bytes.clone();
    let p = parse(&ex.sch, &blob, None);
    let recv_parse = ex.objs[1].snap.clone();
    let offs = offsets(&p, blob.len(), gseed);

    let mut cases: Vec<(Faults, Option<Dmg>, Faults)> = Vec::new(); // (write faults, damage, read faults)
    // 1. every truncation point = writer crashed after k durable bytes
    for &k in &offs {
        if k < blob.len() {
            cases.push((Faults::none(), Some(Dmg::Truncate(k)), Faults::none()));
        }
    }
    // 2. every header field x dictionary
    for f in &p.fields {
        let recv_val = f.unit.and_then(|ui| {
            let key = &p.units[ui].key;
            recv_parse
                .fields
                .iter()
                .find(|rf| rf.name == f.name && rf.role == f.role && rf.unit.is_some_and(|ru| &recv_parse.units[ru].key == key))
                .map(|rf| rf.val)
        });
        for v in dict(f, recv_val) {
            cases.push((
                Faults::none(),
                Some(Dmg::Patch {
                    off: f.off,
                    bytes: v.to_le_bytes()[..f.width].to_vec(),
                }),
                Faults::none(),
            ));
        }
        // every single bit of every header field
        for bit in 0..(f.width * 8) {
            cases.push((
                Faults::none(),
                Some(Dmg::Flip {
                    off: f.off + bit / 8,
                    bit: (bit % 8) as u8,
                }),
                Faults::none(),
            ));
        }
    }
    // 3. reader hard error at every offset; writer hard error / write_zero at every offset
    for &k in &offs {
        if k < blob.len() {
            cases.push((
                Faults::none(),
                None,
                Faults {
                    err_at: Some(k),
                    ..Faults::none()
                },
            ));
            cases.push((
                Faults {
                    err_at: Some(k),
                    ..Faults::none()
                },
                None,
                Faults::none(),
            ));
            if k % 4 == 0 {
                cases.push((
                    Faults {
                        zero_at: Some(k),
                        ..Faults::none()
                    },
                    None,
                    Faults::none(),
                ));
            }
        }
    }
    // 4. coordinated wrap-around corruptions
    for d in wrap_patches(&p) {
        cases.push((Faults::none(), Some(d), Faults::none()));
    }
    for d in consistent_patches(&p) {
        cases.push((Faults::none(), Some(d), Faults::none()));
    }
    // 5. torn blocks: zeroed 64-byte blocks, lost 8-byte blocks at field boundaries, payload bit flips, trailing garbage
    let mut k = 0;
    while k + 64 <= blob.len() {
        cases.push((Faults::none(), Some(Dmg::Zero { off: k, len: 64 }), Faults::none()));
        k += 64;
    }
    for f in &p.fields {
        if f.off + f.width + 8 <= blob.len() {
            cases.push((
                Faults::none(),
                Some(Dmg::Cut {
                    off: f.off + f.width,
                    len: 8,
                }),
                Faults::none(),
            ));
            cases.push((
                Faults::none(),
                Some(Dmg::Cut {
                    off: f.off,
                    len: f.width,
                }),
                Faults::none(),
            ));
        }
    }
    let mut rng = Rng::new(mix(gseed, 5, 0));
    for _ in 0..16 {
        cases.push((
            Faults::none(),
            Some(Dmg::Flip {
                off: rng.below(blob.len() as u64) as usize,
                bit: rng.below(8) as u8,
            }),
            Faults::none(),
        ));
    }
    cases.push((Faults::none(), Some(Dmg::Append(vec![0xAB; 13])), Faults::none()));
    // 6. benign faults must be invisible
    for j in 0..8u64 {
        let f = Faults {
            seed: mix(gseed, 6, j),
            short_pm: [0, 300, 900, 500][(j % 4) as usize],
            eintr_pm: [300, 0, 300, 900][(j % 4) as usize],
            err_at: None,
            zero_at: None,
        };
        cases.push((f.clone(), None, f));
    }

    for (wf, dmg, rf) in cases {
        let mut h = base.clone();
        h.ops.push(Op::Write {
            obj: 0,
            blob: 1,
            faults: wf,
        });
        if let Some(d) = dmg {
            h.ops.push(Op::Damage { blob: 1, d });
        }
        h.ops.push(Op::Read {
            blob: 1,
            obj: 1,
            faults: rf,
        });
        h.ops.push(Op::Probe { obj: 1 });
        on_case(&h);
        let mut ex = Exec::new(&h)?;
        let r = ex.run(&h, stats);
        res.cases += 1;
        let state = fnv(&ex.objs[1].snap_bytes);
        res.hash = fnv_mix(res.hash, state ^ if r.is_ok() { 0 } else { 0xdead });
        if res.sample.is_none() && res.cases == 17 {
            res.sample = Some(h.clone());
        }
        if let Err(v) = r {
            // keep one representative per (oracle, class) in this group
            if !res.violations.iter().any(|(_, x)| x.oracle == v.oracle && x.class == v.class) {
                res.violations.push((h, v));
            } else {
                stats.bump("dup_violation_cases");
            }
        }
    }
    // 7. REUSE: the receiver takes the sender's object (or rejects it), then an object of its OWN original shape
    // again (blob 2 of the set-up): capacity is a property of the buffer, not of what was read last
    for rf in [Faults::none(), Faults { seed: mix(gseed, 7, 0), short_pm: 500, eintr_pm: 300, err_at: None, zero_at: None }] {
        let mut h = base.clone();
        h.ops.push(Op::Write { obj: 0, blob: 1, faults: Faults::none() });
        h.ops.push(Op::Read { blob: 1, obj: 1, faults: rf.clone() });
        h.ops.push(Op::Read { blob: 2, obj: 1, faults: rf.clone() });
        h.ops.push(Op::Probe { obj: 1 });
        h.ops.push(Op::Read { blob: 1, obj: 1, faults: rf });
        h.ops.push(Op::Probe { obj: 1 });
        on_case(&h);
        let mut ex = Exec::new(&h)?;
        let r = ex.run(&h, stats);
        res.cases += 1;
        res.hash = fnv_mix(res.hash, fnv(&ex.objs[1].snap_bytes) ^ if r.is_ok() { 0 } else { 0xdead });
        if let Err(v) = r {
            if !res.violations.iter().any(|(_, x)| x.oracle == v.oracle && x.class == v.class) {
                res.violations.push((h, v));
            } else {
                stats.bump("dup_violation_cases");
            }
        }
    }
    stats.add("enum.cases", res.cases);
    Ok(res)
}

// ---------- random histories ----------

pub struct RandomResult {
    pub history: History,
    pub violation: Option<Violation>,
    pub hash: u64,
}

/// set under Miri, where a megabyte-sized object costs tens of minutes
pub static NO_LARGE: std::sync::atomic::AtomicBool = std::sync::atomic::AtomicBool::new(false);

pub fn run_random(
    seed: u64,
    idx: u64,
    thorough: bool,
    stats: &mut Stats,
    on_case: &mut dyn FnMut(&History),
) -> Result<RandomResult, String> {
    let rs = mix(seed, 0xA11, idx);
    let mut rng = Rng::new(rs);
    let kind = *rng.pick(KINDS);
    let small = !thorough || rng.chance(600);
    let mut base = Lay::random(&mut rng, small);
    // one history in forty (twenty in the thorough tier) moves megabytes; not for the composite keys, whose
    // size at such dimensions exceeds the simulated heap cap
    let composite = matches!(
        kind,
        "BlindRotationKey" | "BlindRotationKeyCompressed" | "CircuitBootstrappingKey" | "BDDKey" | "GLWETensorKey" | "GLWETensorKeyCompressed" | "GGLWEToGGSWKey" | "GGLWEToGGSWKeyCompressed"
    );
    if rng.chance(if thorough { 50 } else { 25 }) && !composite && !NO_LARGE.load(std::sync::atomic::Ordering::Relaxed) {
        base = Lay::large(&mut rng);
        stats.bump("config.large_object");
    }
    let nobj = rng.range(1, 3) as usize;
    let mut objs = vec![base.clone()];
    for _ in 1..nobj {
        let c = rng.below(3);
        objs.push(match c {
            0 => base.clone(),
            1 => base.resized(&mut rng, true),
            _ => base.resized(&mut rng, false),
        });
    }
    let benign_only = rng.chance(250);
    stats.bump(if benign_only { "config.benign" } else { "config.hostile" });
    let nops = rng.range(4, 12);
    let mut h = History {
        kind: kind.to_string(),
        objs,
        ops: Vec::new(),
    };
    let mut ex = Exec::new(&h)?;
    let mut hash = fnv(kind.as_bytes());
    let can_resize = matches!(kind, "VecZnx" | "GLWE" | "LWE");
    let benign = |rng: &mut Rng| Faults {
        seed: rng.next(),
        short_pm: *rng.pick(&[0u32, 0, 300, 900]),
        eintr_pm: *rng.pick(&[0u32, 0, 300, 800]),
        err_at: None,
        zero_at: None,
    };
    for step in 0..nops {
        let have_blobs: Vec<usize> = (0..ex.blobs.len()).filter(|b| ex.blobs[*b].exists).collect();
        let o = rng.below(nobj as u64) as usize;
        let choice = rng.below(100);
        let op = if have_blobs.is_empty() || choice < 15 {
            Op::Craft {
                blob: rng.below(3) as usize,
                obj: o,
                seed: rng.next(),
                shrink: *rng.pick(&[0u32, 0, 0, 1, 1, 2, 255]),
            }
        } else if choice < 35 {
            let mut f = benign(&mut rng);
            if !benign_only && rng.chance(300) {
                let len = ex.objs[o].snap_bytes.len() as u64;
                if rng.chance(700) {
                    f.err_at = Some(rng.below(len + 8) as usize);
                } else {
                    f.zero_at = Some(rng.below(len + 8) as usize);
                }
            }
            Op::Write {
                obj: o,
                blob: rng.below(3) as usize,
                faults: f,
            }
        } else if choice < 55 && !benign_only {
            let b = *rng.pick(&have_blobs);
            let bytes = &ex.blobs[b].bytes;
            let p = parse(&ex.sch, bytes, None);
            let len = bytes.len().max(1) as u64;
            let c = rng.below(100);
            let d = if c < 40 && !p.fields.is_empty() {
                let f = rng.pick(&p.fields);
                let dv = dict(f, None);
                let v = *rng.pick(&dv);
                Dmg::Patch {
                    off: f.off,
                    bytes: v.to_le_bytes()[..f.width].to_vec(),
                }
            } else if c < 55 {
                Dmg::Truncate(rng.below(len) as usize)
            } else if c < 65 {
                Dmg::Flip {
                    off: rng.below(len) as usize,
                    bit: rng.below(8) as u8,
                }
            } else if c < 75 {
                let off = (rng.below(len) as usize) & !7;
                Dmg::Zero {
                    off,
                    len: (rng.range(1, 64) as usize).min(bytes.len().saturating_sub(off)),
                }
            } else if c < 85 {
                let off = (rng.below(len) as usize) & !3;
                Dmg::Cut {
                    off,
                    len: (rng.range(1, 40) as usize).min(bytes.len().saturating_sub(off)),
                }
            } else if c < 90 {
                let mut g = vec![0u8; rng.range(1, 24) as usize];
                rng.fill(&mut g);
                Dmg::Append(g)
            } else {
                let mut w = wrap_patches(&p);
                w.extend(consistent_patches(&p));
                if w.is_empty() { Dmg::Truncate(0) } else { rng.pick(&w).clone() }
            };
            Op::Damage { blob: b, d }
        } else if choice < 85 {
            let b = *rng.pick(&have_blobs);
            let mut f = benign(&mut rng);
            if !benign_only && rng.chance(200) {
                f.err_at = Some(rng.below(ex.blobs[b].bytes.len() as u64 + 8) as usize);
            }
            Op::Read { blob: b, obj: o, faults: f }
        } else if choice < 93 && can_resize {
            let max = ex.objs[o].snap.units.first().and_then(|u| u.leaf.as_ref()).map(|l| l.max_size).unwrap_or(1);
            if rng.chance(700) || kind == "LWE" {
                Op::SetSize {
                    obj: o,
                    s: rng.range(0, max.max(1)) as usize,
                }
            } else {
                Op::Realloc {
                    obj: o,
                    s: rng.range(1, 5) as usize,
                }
            }
        } else {
            Op::Probe { obj: o }
        };
        h.ops.push(op.clone());
        on_case(&h);
        let r = ex.step(&op, step as usize, stats);
        for st in &ex.objs {
            hash = fnv_mix(hash, fnv(&st.snap_bytes));
        }
        if let Err(v) = r {
            return Ok(RandomResult {
                history: h,
                violation: Some(v),
                hash: fnv_mix(hash, 0xdead),
            });
        }
    }
    stats.add("random.ops", h.ops.len() as u64);
    Ok(RandomResult {
        history: h,
        violation: None,
        hash,
    })
}

// ---------- replay + minimisation ----------

pub fn execute(h: &History) -> Result<Option<Violation>, String> {
    let mut ex = Exec::new(h)?;
    let mut s = Stats::default();
    Ok(ex.run(h, &mut s).err())
}

fn same(v: &Option<Violation>, want: &Violation) -> bool {
    v.as_ref().is_some_and(|x| x.oracle == want.oracle && x.class == want.class)
}

/// Shrinks a failing history while the same (oracle, class) keeps firing.
pub fn minimise(h: &History, want: &Violation) -> History {
    let mut cur = h.clone();
    cur.ops.truncate(want.op_index + 1);
    let try_h = |c: &History| -> bool { execute(c).map(|v| same(&v, want)).unwrap_or(false) };
    if !try_h(&cur) {
        return h.clone();
    }
    let mut progress = true;
    let mut rounds = 0;
    while progress && rounds < 6 {
        progress = false;
        rounds += 1;
        // drop single ops (never the last one: it is the failing op)
        let mut i = 0;
        while i + 1 < cur.ops.len() {
            let mut c = cur.clone();
            c.ops.remove(i);
            if try_h(&c) {
                cur = c;
                progress = true;
            } else {
                i += 1;
            }
        }
        // simplify faults
        for i in 0..cur.ops.len() {
            let mut c = cur.clone();
            let changed = match &mut c.ops[i] {
                Op::Read { faults, .. } | Op::Write { faults, .. } => {
                    let mut ch = false;
                    if faults.short_pm != 0 || faults.eintr_pm != 0 {
                        faults.short_pm = 0;
                        faults.eintr_pm = 0;
                        faults.seed = 0;
                        ch = true;
                    }
                    ch
                }
                Op::Craft { shrink, .. } => {
                    if *shrink > 0 {
                        *shrink = 0;
                        true
                    } else {
                        false
                    }
                }
                _ => false,
            };
            if changed && try_h(&c) {
                cur = c;
                progress = true;
            }
            let mut c = cur.clone();
            let changed = match &mut c.ops[i] {
                Op::Read { faults, .. } | Op::Write { faults, .. } => {
                    if faults.err_at.is_some() || faults.zero_at.is_some() {
                        faults.err_at = None;
                        faults.zero_at = None;
                        true
                    } else {
                        false
                    }
                }
                _ => false,
            };
            if changed && try_h(&c) {
                cur = c;
                progress = true;
            }
        }
        // drop unused trailing objects
        while cur.objs.len() > 1 {
            let last = cur.objs.len() - 1;
            let used = cur.ops.iter().any(|o| match o {
                Op::Craft { obj, .. }
                | Op::Write { obj, .. }
                | Op::Read { obj, .. }
                | Op::SetSize { obj, .. }
                | Op::Realloc { obj, .. }
                | Op::Probe { obj } => *obj == last,
                _ => false,
            });
            if used {
                break;
            }
            let mut c = cur.clone();
            c.objs.pop();
            if try_h(&c) {
                cur = c;
                progress = true;
            } else {
                break;
            }
        }
        // shrink layouts toward the smallest admissible ones
        for oi in 0..cur.objs.len() {
            for field in 0..6 {
                let mut c = cur.clone();
                let l = &mut c.objs[oi];
                let changed = match field {
                    0 if l.n > 8 => {
                        l.n = 8;
                        true
                    }
                    1 if l.rank_in > 1 => {
                        l.rank_in = 1;
                        true
                    }
                    2 if l.rank_out > 1 => {
                        l.rank_out = 1;
                        true
                    }
                    3 if l.n_lwe > 1 => {
                        l.n_lwe = 1;
                        true
                    }
                    4 if l.cols > 1 || l.rows > 1 => {
                        l.cols = 1;
                        l.rows = 1;
                        true
                    }
                    5 if l.dnum > 1 => {
                        l.dnum = 1;
                        true
                    }
                    _ => false,
                };
                if changed && try_h(&c) {
                    cur = c;
                    progress = true;
                }
            }
        }
    }
    cur
}

pub fn unused() {
    let _ = kinds::KINDS;
}
