//! C20 - thread count and scheduling never change results.
//!
//! Engine A: the two `thread::scope` loops of poulpy-bin-fhe and harness-spawned threads sharing a
//! Module run under the controlled scheduler (sched.rs) on all four backends; oracles EQ, ONCE,
//! DISJOINT, RO, CANARY, progress. (Engine B, Miri, is driven by /verif/miri.sh.)
use crate::driver::{Acc, CheckImpl, Tier, Viol, announce};
use crate::fhe::{BACKENDS, EvalSpec, PrepSpec, RunOut, SharedSpec, WORD_OPS, Window, WindowMode, WordSpec, backend};
use crate::prng::{Rng, mix};
use crate::sched::{Config, Report, Strategy};
use crate::util::{fnv, fnv_mix};
use serde_json::{Value, json};

pub struct C20;

const BATCH: u64 = 8;

#[derive(Clone, Debug)]
pub enum Scenario {
    Eval(EvalSpec),
    Prep(PrepSpec),
    Shared(SharedSpec),
    Word(WordSpec),
    Mix(MixSpec),
}

/// MIX: harness threads run op lists drawn from the whole C12 inventory (core, hal, ckks, bin-fhe ops)
/// concurrently on the one Module the inventory shares per ring degree; every op's output must equal
/// what the same list yields when the lists run one after the other without scheduler.
#[derive(Clone, Debug)]
pub struct MixSpec {
    pub n: u32,
    pub threads: usize,
    pub ops_seed: u64,
    pub ops_per_thread: usize,
    pub thorough: bool,
    /// engine B only: leave out the ops whose set-up builds BDD or circuit-bootstrapping keys (minutes under Miri); blind rotation stays in (about a minute per pair)
    pub light: bool,
    /// every op of the run comes from one family (same first two name tokens, e.g. the constant and the
    /// exponent circuit bootstrap) and gets the same shape: state an op leaves behind on its OS thread
    /// (thread_local caches keyed too coarsely) then meets a sibling with identical parameters, on a fresh
    /// thread in the scheduled run and on the long-lived main thread in the reference
    pub family: bool,
}

impl MixSpec {
    pub fn to_json(&self) -> Value {
        json!({"n": self.n, "threads": self.threads, "ops_seed": self.ops_seed, "ops_per_thread": self.ops_per_thread, "thorough": self.thorough, "light": self.light, "family": self.family})
    }
    pub fn from_json(v: &Value) -> MixSpec {
        MixSpec {
            n: v["n"].as_u64().unwrap() as u32,
            threads: v["threads"].as_u64().unwrap() as usize,
            ops_seed: v["ops_seed"].as_u64().unwrap(),
            ops_per_thread: v["ops_per_thread"].as_u64().unwrap() as usize,
            thorough: v["thorough"].as_bool().unwrap_or(false),
            light: v["light"].as_bool().unwrap_or(false),
            family: v["family"].as_bool().unwrap_or(false),
        }
    }
    /// op lists are a function of (ops_seed, thread index, position) only, so shrinking the thread
    /// count or the list length keeps the remaining entries
    /// the ops the lists draw from (engine B: without the ones whose set-up builds bootstrapping keys)
    pub fn op_names(&self, backend_name: &str) -> Vec<&'static str> {
        let all = backend(backend_name).core_ops();
        all.iter()
            .copied()
            .filter(|o| {
                let heavy = o.starts_with("word_") || o.starts_with("circuit_bootstrapping");
                !(self.light && (heavy || o.contains("bdd") || o.contains("fhe_uint")))
            })
            .collect()
    }
    pub fn lists(&self, backend_name: &str) -> Vec<Vec<(&'static str, crate::c12::ops::Shape, u64)>> {
        let mut ops: Vec<&'static str> = Vec::new();
        for o in self.op_names(backend_name) {
            let heavy = o.starts_with("word_") || o.starts_with("circuit_bootstrapping");
            for _ in 0..(if heavy { 1 } else { 4 }) {
                ops.push(o);
            }
        }
        let fam_of = |o: &str| -> String { o.split('_').take(2).collect::<Vec<_>>().join("_") };
        let mut r0 = Rng::new(mix(self.ops_seed, 0x319, 0));
        // families are drawn uniformly (not by op count), so that small families of heavy ops come up too
        let mut fams: Vec<String> = self.op_names(backend_name).iter().map(|o| fam_of(o)).collect();
        fams.sort();
        fams.dedup();
        let anchor_fam = r0.pick(&fams).clone();
        let anchor: &str = &anchor_fam;
        let mut shape0 = crate::c12::random_shape(&mut r0, self.thorough);
        shape0.n = self.n;
        let fam: Vec<&'static str> = self.op_names(backend_name).into_iter().filter(|o| fam_of(o) == fam_of(anchor)).collect();
        (0..self.threads)
            .map(|t| {
                (0..self.ops_per_thread)
                    .map(|i| {
                        let mut r = Rng::new(mix(mix(self.ops_seed, 0x317, t as u64), 0x318, i as u64));
                        let op = *r.pick(&ops);
                        let mut shape = crate::c12::random_shape(&mut r, self.thorough);
                        shape.n = self.n;
                        let fill = r.next() | 1;
                        let (op, mut shape) = if self.family { (*r.pick(&fam), shape0.clone()) } else { (op, shape) };
                        // rank 0 only where it is a legal argument (see c12::rank0_ok)
                        crate::c12::fix_rank0(op, &mut shape);
                        (op, shape, fill)
                    })
                    .collect()
            })
            .collect()
    }
}

const MIX_ERR: u64 = 0xE44;

fn mix_one(b: &dyn crate::fhe::BackendOps, op: &str, shape: &crate::c12::ops::Shape, fill: u64) -> u64 {
    let w = Window {
        mode: WindowMode::Generous,
        fill_seed: fill,
    };
    match crate::util::catch(|| b.core_op(op, shape, &w)) {
        Ok((Ok(o), _)) if o.canary_ok => o.outs.iter().fold(1u64, |a, x| fnv_mix(a, fnv(x))),
        Ok((Ok(_), _)) => 0xCA9A,
        // inadmissible shape (the op's own asserts) or a panic: must be the same under every schedule
        _ => MIX_ERR,
    }
}

fn run_mix(r: &Run, spec: &MixSpec, cfg: Option<Config>) -> (Result<RunOut, String>, Option<Report>) {
    let b = backend(&r.backend);
    let lists = spec.lists(&r.backend);
    let state0 = b.module_state(spec.n);
    let mut results: Vec<Vec<u64>> = vec![Vec::new(); spec.threads];
    let (res, rep) = match cfg {
        None => {
            // reference: the lists one after the other on this thread; zero-filled windows
            for (t, l) in lists.iter().enumerate() {
                for (op, shape, _) in l {
                    results[t].push(mix_one(b, op, shape, 0));
                }
            }
            (Ok(()), None)
        }
        Some(cfg) => {
            crate::sched::HARNESS_TOP_LEVEL.store(true, std::sync::atomic::Ordering::Relaxed);
            let lists = &lists;
            let results_ref = &mut results;
            let (res, rep) = crate::sched::run(cfg, move || {
                std::thread::scope(|scope| {
                    for (t, slot) in results_ref.iter_mut().enumerate() {
                        let tok = crate::sched::spawn_prepare();
                        scope.spawn(move || {
                            crate::sched::thread_begin(tok);
                            struct G;
                            impl Drop for G {
                                fn drop(&mut self) {
                                    crate::sched::thread_end();
                                }
                            }
                            let _g = G;
                            crate::sched::yield_point(crate::sched::SITE_HARNESS, t, t);
                            for (op, shape, fill) in &lists[t] {
                                slot.push(mix_one(b, op, shape, *fill));
                            }
                        });
                        crate::sched::after_spawn(tok);
                    }
                    crate::sched::join_begin();
                });
            });
            crate::sched::HARNESS_TOP_LEVEL.store(false, std::sync::atomic::Ordering::Relaxed);
            (res, Some(rep))
        }
    };
    (
        res.map(|_| RunOut {
            outs: results.iter().map(|l| l.iter().flat_map(|h| h.to_le_bytes()).collect()).collect(),
            declared: 0,
            per_thread: 0,
            window_len: 0,
            canary_ok: true,
            inputs_unchanged: true,
            module_fingerprint_same: b.module_state(spec.n) == state0,
            items: spec.threads,
        }),
        rep,
    )
}

/// Engine B: the same lists on plain std threads (Miri's scheduler and race detector decide).
fn run_mix_unsync(backend_name: &str, spec: &MixSpec) -> Result<RunOut, String> {
    let b = backend(backend_name);
    let lists = spec.lists(backend_name);
    let mut results: Vec<Vec<u64>> = vec![Vec::new(); spec.threads];
    let lists = &lists;
    let r = crate::util::catch(|| {
        std::thread::scope(|scope| {
            for (t, slot) in results.iter_mut().enumerate() {
                scope.spawn(move || {
                    for (op, shape, fill) in &lists[t] {
                        slot.push(mix_one(b, op, shape, *fill));
                    }
                });
            }
        });
    });
    r.map(|_| RunOut {
        outs: results.iter().map(|l| l.iter().flat_map(|h| h.to_le_bytes()).collect()).collect(),
        declared: 0,
        per_thread: 0,
        window_len: 0,
        canary_ok: true,
        inputs_unchanged: true,
        module_fingerprint_same: true,
        items: spec.threads,
    })
}

#[derive(Clone, Debug)]
pub struct Run {
    pub backend: String,
    pub scenario: Scenario,
    pub strategy: Strategy,
    pub sched_seed: u64,
    pub fill_seed: u64,
}

fn strategy_json(s: &Strategy) -> Value {
    match s {
        Strategy::Serial => json!({"kind":"serial"}),
        Strategy::Random(p) => json!({"kind":"random","p":p}),
        Strategy::RoundRobin => json!({"kind":"round_robin"}),
        Strategy::Pct { d, horizon } => json!({"kind":"pct","d":d,"horizon":horizon}),
        Strategy::Replay(l) => json!({"kind":"replay","decisions":l}),
    }
}

fn strategy_from(v: &Value) -> Strategy {
    match v["kind"].as_str().unwrap() {
        "serial" => Strategy::Serial,
        "random" => Strategy::Random(v["p"].as_u64().unwrap() as u32),
        "round_robin" => Strategy::RoundRobin,
        "pct" => Strategy::Pct {
            d: v["d"].as_u64().unwrap() as u32,
            horizon: v["horizon"].as_u64().unwrap() as u32,
        },
        _ => Strategy::Replay(v["decisions"].as_array().unwrap().iter().map(|x| x.as_u64().unwrap() as u16).collect()),
    }
}

impl Run {
    pub fn to_json(&self) -> Value {
        let (k, s) = match &self.scenario {
            Scenario::Eval(e) => ("eval", e.to_json()),
            Scenario::Prep(p) => ("prep", p.to_json()),
            Scenario::Shared(p) => ("shared", p.to_json()),
            Scenario::Word(p) => ("word", p.to_json()),
            Scenario::Mix(p) => ("mix", p.to_json()),
        };
        json!({"engine":"A","backend": self.backend, "scenario": k, "spec": s, "strategy": strategy_json(&self.strategy),
               "sched_seed": self.sched_seed, "fill_seed": self.fill_seed})
    }
    pub fn from_json(v: &Value) -> Run {
        let spec = &v["spec"];
        Run {
            backend: v["backend"].as_str().unwrap().to_string(),
            scenario: match v["scenario"].as_str().unwrap() {
                "eval" => Scenario::Eval(EvalSpec::from_json(spec)),
                "prep" => Scenario::Prep(PrepSpec::from_json(spec)),
                "word" => Scenario::Word(WordSpec::from_json(spec)),
                "mix" => Scenario::Mix(MixSpec::from_json(spec)),
                _ => Scenario::Shared(SharedSpec::from_json(spec)),
            },
            strategy: strategy_from(&v["strategy"]),
            sched_seed: v["sched_seed"].as_u64().unwrap(),
            fill_seed: v["fill_seed"].as_u64().unwrap(),
        }
    }
}

fn pick_threads(rng: &mut Rng, items: usize) -> usize {
    match rng.below(6) {
        0 | 1 => rng.range(1, 8) as usize,
        2 => rng.range(9, 40) as usize,
        3 => items.max(1),
        4 => items + 1,
        _ => 2 * items.max(1),
    }
}

fn pick_strategy(rng: &mut Rng) -> Strategy {
    match rng.below(10) {
        0 | 1 => Strategy::Serial,
        2..=5 => Strategy::Random(*rng.pick(&[50u32, 200, 500, 800])),
        6 | 7 => Strategy::Pct {
            d: rng.range(2, 5) as u32,
            horizon: *rng.pick(&[50u32, 200, 800]),
        },
        _ => Strategy::RoundRobin,
    }
}

fn ns_for(backend: &str) -> &'static [u32] {
    match backend {
        "NTT120Avx" => &[16, 32],
        _ => &[8, 16, 32],
    }
}

pub fn generate(seed: u64, idx: u64, thorough: bool) -> Run {
    let mut rng = Rng::new(mix(seed, 0xC20, idx));
    let backend = BACKENDS[(idx % 4) as usize].to_string();
    let ns = ns_for(&backend);
    let kind = rng.below(100);
    let scenario = if kind < 62 {
        // mostly small; sometimes more outputs than the host has cores (a worker cap tied to the
        // hardware only shows there)
        let outputs = if rng.chance(120) { rng.range(17, 40) as usize } else { rng.range(1, 12) as usize };
        Scenario::Eval(EvalSpec {
            n: *rng.pick(ns),
            rank: rng.range(1, 2) as u32,
            circuit_seed: rng.next(),
            outputs,
            out_extra: rng.below(3) as usize,
            threads: pick_threads(&mut rng, outputs),
            out_poison: rng.next() | 1,
        })
    } else if kind < 85 {
        let n = if thorough || rng.chance(250) { *rng.pick(ns) } else { *rng.pick(&ns[..ns.len().min(2)]) };
        let word_bits = if n >= 32 && rng.chance(250) {
            32
        } else if n >= 16 && rng.chance(300) {
            16
        } else {
            8
        };
        let bit_start = rng.below(word_bits as u64) as usize;
        let bit_count = rng.range(1, (word_bits as usize - bit_start) as u64) as usize;
        let bit_count = if thorough { bit_count } else { bit_count.min(5) };
        Scenario::Prep(PrepSpec {
            n,
            rank: if rng.chance(250) { 2 } else { 1 },
            word_bits,
            bit_start,
            bit_count,
            threads: pick_threads(&mut rng, bit_count).min(12),
            via_struct: rng.chance(300),
        })
    } else if kind < 89 {
        // the word-level wrappers split one arena between packing and the evaluator threads
        Scenario::Word(WordSpec {
            n: 32,
            op: rng.pick(WORD_OPS).to_string(),
            threads: *rng.pick(&[2usize, 3, 4, 5, 7, 8, 12, 16, 31, 32, 33, 40]),
            a: rng.next() as u32,
            b: rng.next() as u32,
        })
    } else if kind < 92 {
        // mostly 2-4 threads with a few ops each; sometimes 9-12 threads with one op each (per-key or per-module
        // resources indexed by a small hash of the thread id only collide above their slot count)
        let many = rng.chance(150);
        Scenario::Mix(MixSpec {
            n: *rng.pick(ns),
            threads: if many { rng.range(9, 12) as usize } else { rng.range(2, 4) as usize },
            ops_seed: rng.next(),
            ops_per_thread: if many { 1 } else { rng.range(1, 4) as usize },
            thorough,
            light: false,
            family: rng.chance(300),
        })
    } else {
        Scenario::Shared(SharedSpec {
            n: *rng.pick(ns),
            threads: rng.range(2, 5) as usize,
            ops_seed: rng.next(),
            ops_per_thread: rng.range(2, 6) as usize,
            with_prepare: rng.chance(150),
            fresh_module: rng.chance(400),
        })
    };
    Run {
        backend,
        scenario,
        strategy: pick_strategy(&mut rng),
        sched_seed: rng.next(),
        fill_seed: rng.next() | 1,
    }
}

pub struct Outcome {
    pub violation: Option<(String, String, String)>, // oracle, class, detail
    pub report: Option<Report>,
    pub hash: u64,
    /// MIX: (ops run, ops that were inadmissible or failed alike in both runs)
    pub mix_ops: (u64, u64),
}

fn run_scenario(r: &Run, w: &Window, cfg: Option<Config>) -> (Result<RunOut, String>, Option<Report>) {
    let b = backend(&r.backend);
    match &r.scenario {
        Scenario::Eval(s) => b.eval(s, w, cfg),
        Scenario::Prep(s) => b.prep(s, w, cfg),
        Scenario::Shared(s) => b.shared(s, cfg),
        Scenario::Word(s) => b.word(s, w, cfg),
        Scenario::Mix(s) => run_mix(r, s, cfg),
    }
}

fn reference(r: &Run) -> Result<RunOut, String> {
    // the same call with threads = 1, no scheduler, zeroed generous scratch
    let mut r1 = r.clone();
    match &mut r1.scenario {
        Scenario::Eval(s) => s.threads = 1,
        Scenario::Prep(s) => s.threads = 1,
        Scenario::Word(s) => s.threads = 1,
        Scenario::Shared(_) | Scenario::Mix(_) => {}
    }
    let w = Window {
        mode: WindowMode::Generous,
        fill_seed: 0,
    };
    run_scenario(&r1, &w, None).0
}

pub fn execute(r: &Run) -> Result<Outcome, String> {
    let reference = match reference(r) {
        Ok(o) => o,
        Err(p) => return Err(format!("reference run (threads=1, no scheduler) panicked: {p}")),
    };
    let w = Window {
        mode: WindowMode::Generous,
        fill_seed: r.fill_seed,
    };
    let budget = 200_000;
    let cfg = Config {
        seed: r.sched_seed,
        strategy: r.strategy.clone(),
        step_budget: budget,
        arena: None,
    };
    let (res, rep) = run_scenario(r, &w, Some(cfg));
    let rep = rep.unwrap();
    let mut hash = rep.log_hash;
    let mut v: Option<(String, String, String)> = None;
    let mut mix_ops = (0u64, 0u64);
    if let (Scenario::Mix(_), Ok(out)) = (&r.scenario, &res) {
        for o in &out.outs {
            for w in o.chunks(8) {
                mix_ops.0 += 1;
                if u64::from_le_bytes(w.try_into().unwrap()) == MIX_ERR {
                    mix_ops.1 += 1;
                }
            }
        }
    }
    if rep.stuck {
        v = Some(("PROGRESS".into(), "step_budget_exceeded".into(), format!("scope did not finish within {budget} scheduling steps")));
    }
    match &res {
        Err(p) => {
            if v.is_none() {
                v = Some(("NOPANIC".into(), format!("panic:{}", crate::util::panic_class(p)), format!("panicked under the scheduler (the reference run did not): {p}")));
            }
        }
        Ok(out) => {
            for o in &out.outs {
                hash = fnv_mix(hash, fnv(o));
            }
            if v.is_none() && let Some(a) = &rep.arena_violation {
                v = Some(("DISJOINT".into(), "arena".into(), a.clone()));
            }
            if v.is_none() {
                // ONCE
                let site = match &r.scenario {
                    Scenario::Eval(_) | Scenario::Word(_) => poulpy_hal::verif::SITE_BDD_ITEM,
                    Scenario::Prep(_) => poulpy_hal::verif::SITE_PREPARE_ITEM,
                    Scenario::Shared(_) | Scenario::Mix(_) => crate::sched::SITE_HARNESS,
                };
                let (lo, cnt) = match &r.scenario {
                    Scenario::Eval(s) => (0, s.outputs),
                    Scenario::Prep(s) => (s.bit_start, s.bit_count),
                    Scenario::Shared(s) => (0, s.threads),
                    Scenario::Mix(s) => (0, s.threads),
                    Scenario::Word(_) => (0, 32),
                };
                // nested scopes (SHARED op 3) add their own items on other sites; only top-level items are counted here
                let mut seen = vec![0u32; cnt];
                let mut bad: Option<String> = None;
                for (s, a, _b, tid) in &rep.items {
                    if *s != site {
                        continue;
                    }
                    if matches!(r.scenario, Scenario::Shared(_) | Scenario::Mix(_)) && *s != crate::sched::SITE_HARNESS {
                        continue;
                    }
                    if *a < lo || *a >= lo + cnt {
                        bad = Some(format!("work item {a} outside [{lo}, {}) executed by thread {tid}", lo + cnt));
                        break;
                    }
                    seen[*a - lo] += 1;
                }
                if bad.is_none() && matches!(r.scenario, Scenario::Word(_)) {
                    // the shipped circuits have 1..32 outputs depending on the operation (comparisons produce
                    // one bit): the executed indices must be 0..k, each exactly once
                    let k = seen.iter().rposition(|c| *c > 0).map(|p| p + 1).unwrap_or(0);
                    if k == 0 {
                        bad = Some("no work item executed".into());
                    }
                    for (i, c) in seen.iter().take(k).enumerate() {
                        if *c != 1 {
                            bad = Some(format!("work item {i} executed {c} times (items 0..{k} observed)"));
                            break;
                        }
                    }
                } else if bad.is_none() && !matches!(r.scenario, Scenario::Shared(_) | Scenario::Mix(_)) {
                    for (i, c) in seen.iter().enumerate() {
                        if *c != 1 {
                            bad = Some(format!("work item {} executed {c} times", lo + i));
                            break;
                        }
                    }
                }
                if let Some(b) = bad {
                    v = Some(("ONCE".into(), "work_items".into(), b));
                }
            }
            if v.is_none() {
                // EQ
                if out.outs.len() != reference.outs.len() {
                    v = Some(("EQ".into(), "output_count".into(), "number of outputs differs from the reference".into()));
                } else {
                    for (i, (a, b)) in out.outs.iter().zip(reference.outs.iter()).enumerate() {
                        if a != b && let Scenario::Mix(spec) = &r.scenario {
                            let at = a.iter().zip(b.iter()).position(|(x, y)| x != y).unwrap_or(0) / 8;
                            let (op, shape, _) = &spec.lists(&r.backend)[i][at];
                            let word = |x: &Vec<u8>| u64::from_le_bytes(x[at * 8..at * 8 + 8].try_into().unwrap());
                            let what = match (word(a), word(b)) {
                                (MIX_ERR, _) => "failed under the scheduler but not alone",
                                (_, MIX_ERR) => "succeeded under the scheduler but fails alone",
                                (0xCA9A, _) => "wrote outside its scratch window",
                                _ => "produced different bytes than alone",
                            };
                            v = Some((
                                "EQ".into(),
                                "mix_op_differs".into(),
                                format!("thread {i}, op {at} ({op}, shape {}) {what}, while other threads ran ops on the same Module", shape.to_json()),
                            ));
                            break;
                        }
                        if a != b {
                            let at = a.iter().zip(b.iter()).position(|(x, y)| x != y).unwrap_or(0);
                            v = Some((
                                "EQ".into(),
                                "bytes_differ".into(),
                                format!("output {i} differs from the single-threaded reference at byte {at} ({} bytes)", a.len()),
                            ));
                            break;
                        }
                    }
                }
            }
            if v.is_none() && (!reference.inputs_unchanged || !reference.module_fingerprint_same) {
                // state that is filled lazily changes during whichever run comes first - the reference
                v = Some((
                    "RO".into(),
                    if reference.inputs_unchanged { "module_changed" } else { "inputs_changed" }.into(),
                    "shared read-only state (inputs / prepared keys / module value or handle) changed during the single-threaded reference call".into(),
                ));
            }
            if v.is_none() && (!out.inputs_unchanged || !out.module_fingerprint_same) {
                v = Some((
                    "RO".into(),
                    if out.inputs_unchanged { "module_changed" } else { "inputs_changed" }.into(),
                    "shared read-only state (inputs / prepared keys / module tables) changed during the call".into(),
                ));
            }
            if v.is_none() && !out.canary_ok {
                v = Some(("CANARY".into(), "arena_guard".into(), "bytes outside the scratch window were written".into()));
            }
        }
    }
    Ok(Outcome {
        violation: v,
        report: Some(rep),
        hash,
        mix_ops,
    })
}

/// Shrinks the schedule: replays the recorded decisions, then drops the tail / whole decisions while
/// the same oracle keeps firing.
fn minimise(r: &Run, rep: &Report, want: &(String, String, String)) -> Run {
    let mut cur = r.clone();
    cur.strategy = Strategy::Replay(rep.decisions.clone());
    let still = |c: &Run| -> bool {
        execute(c).ok().and_then(|o| o.violation).is_some_and(|v| v.0 == want.0 && v.1 == want.1)
    };
    if !still(&cur) {
        // MIX: the workload shrinks under the original strategy (a recorded schedule does not fit a smaller workload)
        let mut c = r.clone();
        if let Scenario::Mix(_) = &c.scenario {
            loop {
                let mut progress = false;
                for which in 0..2 {
                    let mut t = c.clone();
                    if let Scenario::Mix(m) = &mut t.scenario {
                        if which == 0 && m.ops_per_thread > 1 {
                            m.ops_per_thread -= 1;
                        } else if which == 1 && m.threads > 2 {
                            m.threads -= 1;
                        } else {
                            continue;
                        }
                    }
                    if still(&t) {
                        c = t;
                        progress = true;
                    }
                }
                if !progress {
                    break;
                }
            }
        }
        return c;
    }
    // serial first
    let mut c = cur.clone();
    c.strategy = Strategy::Replay(Vec::new());
    if still(&c) {
        return c;
    }
    let mut list = rep.decisions.clone();
    let mut cut = list.len() / 2;
    while cut >= 1 {
        let mut l2 = list.clone();
        l2.truncate(list.len() - cut);
        let mut c = cur.clone();
        c.strategy = Strategy::Replay(l2.clone());
        if still(&c) {
            list = l2;
            cur = c;
            cut = cut.min(list.len() / 2).max(if list.is_empty() { 0 } else { 1 });
            if list.is_empty() {
                break;
            }
        } else {
            cut /= 2;
        }
    }
    cur
}

impl CheckImpl for C20 {
    fn id(&self) -> &'static str {
        "C20"
    }
    fn level(&self) -> &'static str {
        "exploration"
    }
    fn units(&self, tier: Tier, _seed: u64) -> u64 {
        match tier {
            Tier::Quick => 16_000 / BATCH,
            Tier::Thorough => 400_000 / BATCH,
        }
    }
    fn run_unit(&mut self, tier: Tier, seed: u64, unit: u64, acc: &mut Acc, viols: &mut Vec<Viol>) {
        crate::sched::install_hooks();
        let mut uh = 0u64;
        for i in 0..BATCH {
            let idx = unit * BATCH + i;
            let r = generate(seed, idx, tier == Tier::Thorough);
            announce(unit, &|| json!({"unit": unit, "replay": r.to_json()}).to_string());
            let o = match execute(&r) {
                Ok(o) => o,
                Err(_) => {
                    // the single-threaded, unscheduled reference itself panics: the scenario's parameters are
                    // not admissible for the library (a C12 matter, e.g. the circuit-bootstrapping scratch
                    // under-estimate); nothing for C20 to decide
                    acc.evaluations += 1;
                    acc.bump("skipped.reference_run_panicked");
                    continue;
                }
            };
            acc.evaluations += 1;
            uh = fnv_mix(uh, o.hash);
            let rep = o.report.as_ref().unwrap();
            acc.add("sched.decision_points", rep.steps);
            acc.add("sched.context_switches", rep.switches);
            acc.add("sched.threads_spawned", rep.threads.saturating_sub(1) as u64);
            acc.add("arena.takes_observed", rep.takes);
            acc.add("probe.switch_inside_nested_op", rep.switch_inside_nested);
            if rep.child_ran_before_parent_finished_spawning {
                acc.bump("probe.child_ran_before_parent_finished_spawning");
            }
            acc.bump(&format!("strategy.{}", r.strategy.name().split('(').next().unwrap()));
            acc.bump(&format!("backend.{}", r.backend));
            let (sc, requested, items) = match &r.scenario {
                Scenario::Eval(s) => ("eval", s.threads, s.outputs),
                Scenario::Prep(s) => ("prep", s.threads, s.bit_count),
                Scenario::Shared(s) => ("shared", s.threads, s.threads),
                Scenario::Word(s) => ("word", s.threads, 32),
                Scenario::Mix(s) => ("mix", s.threads, s.threads),
            };
            acc.bump(&format!("scenario.{sc}"));
            acc.add("mix.ops_run_concurrently", o.mix_ops.0);
            acc.add("mix.ops_inadmissible_in_both_runs", o.mix_ops.1);
            if requested > items {
                acc.bump("probe.threads_exceed_items");
            }
            if items % requested.max(1) != 0 {
                acc.bump("probe.threads_do_not_divide_items");
            }
            if rep.threads.saturating_sub(1) < requested && sc != "shared" && sc != "mix" {
                acc.bump("probe.worker_count_below_requested");
            }
            acc.set_insert("schedule_signatures", fnv_mix(rep.schedule_sig, fnv(format!("{sc}{}", r.backend).as_bytes())));
            for h in &rep.handoffs {
                acc.set_insert("handoff_pairs", *h);
            }
            if acc.samples.len() < 4 && i == 0 {
                let mut s = r.to_json();
                s["observed"] = json!({"decisions": rep.decisions.len(), "switches": rep.switches, "threads": rep.threads});
                acc.samples.push(s);
            }
            if let Some(v) = &o.violation {
                if !viols.iter().any(|x| x.oracle == v.0 && x.class == v.1 && x.subject == format!("{sc}/{}", r.backend)) {
                    let m = minimise(&r, rep, v);
                    let mut replay = m.to_json();
                    replay["original_decisions"] = json!(rep.decisions.len());
                    viols.push(Viol {
                        unit,
                        oracle: v.0.clone(),
                        class: v.1.clone(),
                        subject: format!("{sc}/{}", r.backend),
                        detail: v.2.clone(),
                        replay,
                    });
                }
            }
        }
        acc.log_unit(unit, uh);
    }
    fn secondary(&mut self, tier: Tier, seed: u64) -> (Vec<Viol>, Value) {
        // Engine B reaches what engine A cannot (preemption between two hook points, unsynchronised
        // accesses that do not change bytes): a small pass runs in the quick tier too (VERIF_MIRI=0 skips it).
        if std::env::var("VERIF_MIRI").ok().as_deref() == Some("0") {
            return (Vec::new(), json!({"engine": "miri", "skipped": "VERIF_MIRI=0"}));
        }
        // (scenario, backend, n, number of Miri seeds)
        let mut jobs: Vec<(String, &str, u32, u32)> = match tier {
            Tier::Quick => vec![("eval".to_string(), "FFT64Ref", 8, 3), ("shared".to_string(), "FFT64Ref", 8, 3)],
            Tier::Thorough => vec![
                ("eval".to_string(), "FFT64Ref", 8, 16),
                ("eval".to_string(), "NTT120Ref", 8, 16),
                ("shared".to_string(), "FFT64Ref", 8, 8),
                ("shared".to_string(), "NTT120Ref", 8, 8),
                ("prep".to_string(), "FFT64Ref", 8, 2),
                ("prep".to_string(), "NTT120Ref", 8, 2),
            ],
        };
        // PAIRS under Miri: two threads run the same inventory op at once on the shared Module; the
        // happens-before race detector needs no lucky timing. Thorough: the whole light inventory on
        // both reference backends; quick: a seed-chosen sample.
        let light_len = MixSpec {
            n: 8,
            threads: 2,
            ops_seed: 0,
            ops_per_thread: 0,
            thorough: false,
            light: true,
            family: false,
        }
        .op_names("FFT64Ref")
        .len() as u64;
        match tier {
            Tier::Quick => {
                jobs.push((format!("pairs:{}:6:{}", mix(seed, 0xC, 0) % light_len, seed % 1000), "FFT64Ref", 8, 1));
                // the NTT120 backends cost 40-70 s per pair under Miri
                jobs.push((format!("pairs:{}:2:{}", mix(seed, 0xC, 1) % light_len, seed % 1000), "NTT120Ref", 8, 1));
                jobs.push((format!("pairs:{}:5:{}", mix(seed, 0xC, 2) % light_len, seed % 1000), "FFT64Avx", 8, 1));
                jobs.push((format!("pairs:{}:1:{}", mix(seed, 0xC, 3) % light_len, seed % 1000), "NTT120Avx", 16, 1));
            }
            Tier::Thorough => {
                // whole inventory on three backends; NTT120Avx costs ~45 s per pair under Miri: a rotating sample
                let per = light_len.div_ceil(16);
                for be in ["FFT64Ref", "NTT120Ref", "FFT64Avx"] {
                    for k in 0..16 {
                        jobs.push((format!("pairs:{}:{per}:{}", k * per, seed % 1000), be, 8, 1));
                    }
                }
                for k in 0..16 {
                    jobs.push((format!("pairs:{}:3:{}", mix(seed, 0xD, k) % light_len, seed % 1000), "NTT120Avx", 16, 1));
                }
            }
        }
        if tier == Tier::Thorough {
            // MIX under Miri: two threads, two inventory ops each; a different op list per job
            for j in 0..10u64 {
                jobs.push((format!("mix:{}", mix(seed, 0xB, j) % 1_000_000), if j % 2 == 0 { "FFT64Ref" } else { "NTT120Ref" }, 8, 1));
            }
        }
        let t0 = std::time::Instant::now();
        let first = (seed % 1000) as u32;
        let mut viols = Vec::new();
        let mut runs = Vec::new();
        // at most 16 Miri processes at a time (cargo serialises the one build among them)
        let queue = std::sync::Arc::new(std::sync::Mutex::new(
            jobs.iter().map(|(sc, be, n, k)| (sc.clone(), be.to_string(), *n, *k)).collect::<std::collections::VecDeque<_>>(),
        ));
        let results = std::sync::Arc::new(std::sync::Mutex::new(Vec::new()));
        let pool: Vec<_> = (0..jobs.len().min(16))
            .map(|_| {
                let (queue, results) = (queue.clone(), results.clone());
                std::thread::spawn(move || {
                    loop {
                        let job = queue.lock().unwrap().pop_front();
                        let Some((sc, be, n, k)) = job else { break };
                        let t = std::time::Instant::now();
                        let r = miri_run(&sc, &be, n, first, first + k);
                        results.lock().unwrap().push((sc, be, n, k, r, t.elapsed().as_secs_f64()));
                    }
                })
            })
            .collect();
        for h in pool {
            h.join().unwrap();
        }
        let mut results = std::mem::take(&mut *results.lock().unwrap());
        results.sort_by(|a, b| (&a.0, &a.1).cmp(&(&b.0, &b.1)));
        for (sc, be, n, k, r, secs) in results {
            let mut run = json!({"scenario": sc, "backend": be, "n": n, "seeds": format!("{first}..{}", first + k), "ok": r.0, "wall_s": secs.round()});
            if r.0 && !r.1.is_empty() {
                run["note"] = json!(r.1);
            }
            runs.push(run);
            if !r.0 {
                viols.push(miri_viol(&sc, &be, n, first, first + k, &r.1));
            }
        }
        let ev = json!({"engine": "miri (nightly), scheduler hooks not installed, -Zmiri-many-seeds, -Zmiri-preemption-rate=0.1: data-race and UB detector; eval/shared/prep/mix on the reference backends, PAIRS on all four (borrow tracking off on the AVX ones)",
                        "runs": runs, "wall_s": t0.elapsed().as_secs_f64()});
        (viols, ev)
    }
    fn replay(&mut self, replay: &Value) -> Option<(String, String, String)> {
        if replay["engine"].as_str() == Some("B") {
            let u = |k: &str| replay[k].as_u64().unwrap() as u32;
            let r = miri_run(replay["scenario"].as_str().unwrap(), replay["backend"].as_str().unwrap(), u("n"), u("seed_from"), u("seed_to"));
            return if r.0 { None } else { Some(("MIRI".into(), "miri_report".into(), r.1)) };
        }
        crate::sched::install_hooks();
        let r = Run::from_json(replay);
        match execute(&r) {
            Ok(o) => o.violation,
            Err(e) => crate::driver::harness_error(&format!("replay: {e}")),
        }
    }
    fn describe(&self, _tier: Tier, acc: &Acc) -> Value {
        let sigs = acc.sets.get("schedule_signatures").map(|s| s.len()).unwrap_or(0) as u64;
        json!({
            "distinct_nontrivial": sigs,
            "rule": "One evaluation = one scenario (EVAL: execute_bdd_circuit_multi_thread on a harness-generated circuit; PREP: fhe_uint_prepare_custom_multi_thread on a tiny real BDD key; WORD: the word-level `<op>_multi_thread` wrappers; SHARED: 2-5 harness threads running mixed op lists on one shared Module/keys/ciphertexts; MIX: 2-4 harness threads running op lists drawn from the whole C12 inventory on the Module the inventory shares per ring degree) on one of the four backends, executed under the controlled scheduler (strategies serial / random(p) / pct(d) / round-robin, swarm-chosen per run) and compared with the same call at threads=1 without scheduler. distinct_nontrivial = distinct schedule signatures (hash of the thread-id sequence at context switches, per scenario and backend); a run is non-trivial when it spawned at least one thread.",
            "assumptions": [
                "preemption only at hook points: every scratch carve (take_slice), every work item, spawn/join edges",
                "one thread runs at a time, so executions are sequentially consistent; data races that do not change bytes are only visible to the DISJOINT monitor here and to engine B (Miri: EVAL / SHARED / PREP / MIX on the reference backends, PAIRS on all four; see secondary_engine)",
                "reference = the library's own single-threaded path on the same inputs"
            ],
            "extra": {
                "components": {"real": ["poulpy-bin-fhe thread::scope loops", "all callee ops on FFT64Ref, NTT120Ref, FFT64Avx, NTT120Avx", "key generation, encryption"],
                               "stub": ["thread scheduler decisions (parked real threads)", "scratch provisioning (canary-guarded window)"]},
                "distinct_handoff_pairs": acc.sets.get("handoff_pairs").map(|s| s.len()).unwrap_or(0),
                "simulated_time": "logical: scheduling decision count",
            }
        })
    }
}

/// Engine B: entry point meant to run under `cargo +nightly miri run -- miri <scenario> <backend> <n>`.
/// The scheduler hooks are NOT installed: threads run under Miri's own seeded scheduler
/// (-Zmiri-seed / -Zmiri-many-seeds) so that its data-race detector sees unsynchronised accesses.
/// The oracle besides Miri's own reports is byte equality with the single-threaded call.
pub fn miri_main(args: &[String]) -> ! {
    let scenario = args.first().map(|s| s.as_str()).unwrap_or("eval");
    let backend_name = args.get(1).map(|s| s.as_str()).unwrap_or("FFT64Ref");
    let n: u32 = args.get(2).and_then(|s| s.parse().ok()).unwrap_or(8);
    let b = backend(backend_name);
    let w = Window {
        mode: WindowMode::Generous,
        fill_seed: 0x5eed,
    };
    let w0 = Window {
        mode: WindowMode::Generous,
        fill_seed: 0,
    };
    let (multi, single) = match scenario {
        "eval" => {
            let mut s = EvalSpec {
                n,
                rank: 1,
                circuit_seed: 0xC1C,
                outputs: 5,
                out_extra: 1,
                threads: 3,
                out_poison: 77,
            };
            let m = b.eval(&s, &w, None).0;
            s.threads = 1;
            (m, b.eval(&s, &w0, None).0)
        }
        "prep" => {
            let mut s = PrepSpec {
                n,
                rank: 1,
                word_bits: 8,
                bit_start: 1,
                bit_count: 3,
                threads: 2,
                via_struct: false,
            };
            let m = b.prep(&s, &w, None).0;
            s.threads = 1;
            (m, b.prep(&s, &w0, None).0)
        }
        sc if sc.starts_with("pairs") => {
            // pairs:<from>:<count>:<shape_seed>: for each of `count` inventory ops starting at index `from` (light
            // list, wrapping), two plain std threads run that op at the same time with different shapes on the
            // shared Module. The oracle is Miri's own happens-before race detector (no timing needed for
            // unsynchronised non-atomic accesses) plus "no panic that the op does not have alone".
            crate::sched::UNSCHEDULED.store(true, std::sync::atomic::Ordering::Relaxed);
            let light = MixSpec {
                n,
                threads: 2,
                ops_seed: 0,
                ops_per_thread: 0,
                thorough: false,
                light: true,
                family: false,
            }
            .op_names(backend_name);
            // <from> is an index into that list or an op name
            let mut it = sc.split(':').skip(1);
            let from: u64 = it
                .next()
                .map(|x| x.parse::<u64>().unwrap_or_else(|_| light.iter().position(|o| *o == x).unwrap_or(0) as u64))
                .unwrap_or(0);
            let count: u64 = it.next().and_then(|x| x.parse().ok()).unwrap_or(4);
            let shape_seed: u64 = it.next().and_then(|x| x.parse().ok()).unwrap_or(1);
            let mut done = Vec::new();
            for k in 0..count {
                let op = light[((from + k) % light.len() as u64) as usize];
                println!("MIRI-PAIR-START {k} {op}");
                let shapes: Vec<crate::c12::ops::Shape> = (0..2u64)
                    .map(|t| {
                        // the same shape on both threads: under Miri's fine-grained preemption they then move through
                        // the same kernels at nearly the same time
                        let _ = t;
                        let mut r = Rng::new(mix(mix(shape_seed, 0x9A1, from + k), 0x9A2, 0));
                        let mut sh = crate::c12::random_shape(&mut r, false);
                        sh.n = n;
                        crate::c12::fix_rank0(op, &mut sh);
                        sh
                    })
                    .collect();
                let shapes = &shapes;
                let mut res = [0u64; 2];
                let r = crate::util::catch(|| {
                    std::thread::scope(|scope| {
                        for (t, slot) in res.iter_mut().enumerate() {
                            scope.spawn(move || {
                                *slot = mix_one(b, op, &shapes[t], 1 + t as u64);
                            });
                        }
                    });
                });
                if let Err(e) = r {
                    println!("MIRI-ENGINE-B: panic in pair {op}: {e}");
                    std::process::exit(1);
                }
                done.push(format!("{op}{}", if res.contains(&MIX_ERR) { "(inadmissible)" } else { "" }));
            }
            println!("MIRI-PAIRS: {}", done.join(" "));
            println!("MIRI-ENGINE-B: ok scenario={scenario} backend={backend_name} n={n} outputs={}", done.len());
            std::process::exit(0);
        }
        sc if sc.starts_with("mix") => {
            // mix:<ops_seed>: two threads, two inventory ops each, on the shared Module of ring degree n
            let spec = MixSpec {
                n,
                threads: 2,
                ops_seed: sc.split(':').nth(1).and_then(|x| x.parse().ok()).unwrap_or(1),
                ops_per_thread: 2,
                thorough: false,
                light: true,
                family: false,
            };
            crate::sched::UNSCHEDULED.store(true, std::sync::atomic::Ordering::Relaxed);
            let run = Run {
                backend: backend_name.to_string(),
                scenario: Scenario::Mix(spec.clone()),
                strategy: Strategy::Serial,
                sched_seed: 0,
                fill_seed: 1,
            };
            let seq = run_mix(&run, &spec, None).0;
            let par = run_mix_unsync(backend_name, &spec);
            if let Ok(p) = &par {
                let words: Vec<u64> = p.outs.iter().flat_map(|o| o.chunks(8).map(|w| u64::from_le_bytes(w.try_into().unwrap()))).collect();
                println!(
                    "MIRI-MIX-OPS: {:?} inadmissible={}",
                    spec.lists(backend_name).iter().flatten().map(|x| x.0).collect::<Vec<_>>(),
                    words.iter().filter(|w| **w == MIX_ERR).count()
                );
            }
            (par, seq)
        }
        _ => {
            let s = SharedSpec {
                n,
                threads: 3,
                ops_seed: 0xABCD,
                ops_per_thread: 2,
                with_prepare: false,
                fresh_module: true,
            };
            // engine B variant of SHARED: real concurrency, no scheduler: run through the scheduler-less path twice
            // (sequential reference) and once with plain std threads.
            let seq = b.shared(&s, None).0;
            let par = b.shared_unsync(&s);
            (par, seq)
        }
    };
    match (multi, single) {
        (Ok(a), Ok(r)) => {
            if a.outs != r.outs {
                println!("MIRI-ENGINE-B: EQ violated: multi-threaded outputs differ from the single-threaded reference");
                std::process::exit(1);
            }
            println!("MIRI-ENGINE-B: ok scenario={scenario} backend={backend_name} n={n} outputs={}", a.outs.len());
            std::process::exit(0);
        }
        (a, r) => {
            println!("MIRI-ENGINE-B: panic: {:?} / {:?}", a.err(), r.err());
            std::process::exit(1);
        }
    }
}

/// Runs `poulpy-sim miri <scenario> <backend> <n>` under Miri for seeds [from, to). Returns (ok, report excerpt).
fn miri_run(scenario: &str, backend_name: &str, n: u32, from: u32, to: u32) -> (bool, String) {
    // The AVX kernels write through pointers derived from `as_ptr()` of a `&mut` slice (znx_avx/normalization.rs):
    // an aliasing-model matter outside C20, so borrow tracking is off there; the race detector and the
    // bounds / initialisation checks stay on.
    let extra = if backend_name.ends_with("Avx") { " -Zmiri-disable-stacked-borrows" } else { "" };
    let parts: Vec<&str> = scenario.split(':').collect();
    let numeric = parts.len() == 4 && parts[1..].iter().all(|x| x.parse::<u64>().is_ok());
    if !(backend_name.ends_with("Avx") && parts[0] == "pairs" && numeric) {
        return miri_run_flags(&["miri", scenario, backend_name, &n.to_string()], from, to, "MIRI-ENGINE-B: ok", extra);
    }
    // PAIRS on an AVX backend: what engine B decides there is races (and equality / panics). The AVX kernels
    // also trip Miri on matters outside C20 - e.g. a pointer bumped past the end of its buffer after the last loop
    // iteration (fft64/convolution.rs, reim4/arithmetic_avx.rs), never dereferenced. Such a report ends the
    // process, so the batch resumes behind the op that tripped it and the op is listed in the evidence.
    let (mut f, mut c, shape_seed): (u64, u64, u64) = (parts[1].parse().unwrap(), parts[2].parse().unwrap(), parts[3].parse().unwrap());
    let mut notes: Vec<String> = Vec::new();
    while c > 0 {
        let sc = format!("pairs:{f}:{c}:{shape_seed}");
        let r = miri_run_flags(&["miri", &sc, backend_name, &n.to_string()], from, to, "MIRI-ENGINE-B: ok", extra);
        if r.0 {
            break;
        }
        if r.1.contains("Data race") || r.1.contains("EQ violated") || r.1.contains("panic in pair") {
            return (false, r.1);
        }
        // "MIRI-PAIR-START <k> <op>" of the pair that was running
        let last = r.1.rmatch_indices("MIRI-PAIR-START ").next().map(|(i, _)| &r.1[i + 16..]);
        let Some((k, op)) = last.and_then(|l| {
            let mut it = l.split_whitespace();
            Some((it.next()?.parse::<u64>().ok()?, it.next()?.to_string()))
        }) else {
            return (false, r.1);
        };
        let what = r.1.split(" | ").nth(1).unwrap_or("").split(" / ").next().unwrap_or("").to_string();
        notes.push(format!("{op}: {}", what.chars().take(160).collect::<String>()));
        f += k + 1;
        c = c.saturating_sub(k + 1);
    }
    (true, if notes.is_empty() { String::new() } else { format!("skipped (Miri report other than a data race, outside C20): {}", notes.join("; ")) })
}

/// Runs `poulpy-sim <argv>` under Miri for Miri seeds [from, to); success = exit 0 and one `ok_marker` line per seed.
pub fn miri_run_args(argv: &[&str], from: u32, to: u32, ok_marker: &str) -> (bool, String) {
    miri_run_flags(argv, from, to, ok_marker, "")
}

pub fn miri_run_flags(argv: &[&str], from: u32, to: u32, ok_marker: &str, extra_flags: &str) -> (bool, String) {
    let root = crate::driver::verif_root();
    let mut args: Vec<&str> = vec!["+nightly", "miri", "run", "--quiet", "--"];
    args.extend_from_slice(argv);
    let out = std::process::Command::new("cargo")
        .args(&args)
        .current_dir(format!("{root}/sim"))
        .env("CARGO_TARGET_DIR", format!("{root}/target/miri"))
        .env("CARGO_NET_OFFLINE", "true")
        .env(
            "MIRIFLAGS",
            format!("-Zmiri-disable-isolation -Zmiri-preemption-rate=0.1 -Zmiri-many-seeds={from}..{to}{extra_flags}"),
        )
        .output();
    match out {
        Err(e) => crate::driver::harness_error(&format!("cannot run cargo miri: {e}")),
        Ok(o) => {
            let so = String::from_utf8_lossy(&o.stdout).to_string();
            let se = String::from_utf8_lossy(&o.stderr).to_string();
            let oks = so.matches(ok_marker).count() as u32;
            if o.status.success() && oks == to - from {
                (true, String::new())
            } else {
                if se.contains("could not compile") || se.contains("error: no such command") {
                    crate::driver::harness_error(&format!("miri build failed:\n{}", tail(&se, 3000)));
                }
                let interesting: Vec<&str> = se
                    .lines()
                    .filter(|l| {
                        l.starts_with("error") || l.contains("Undefined Behavior") || l.contains("Data race") || l.contains("panicked at") || l.contains("MIRI-")
                    })
                    .take(6)
                    .collect();
                (false, format!("{} | {}", so.lines().filter(|l| l.contains("MIRI-") && !l.contains(": ok")).collect::<Vec<_>>().join(" "), interesting.join(" / ")))
            }
        }
    }
}

fn tail(s: &str, n: usize) -> String {
    s.chars().rev().take(n).collect::<String>().chars().rev().collect()
}

fn miri_viol(scenario: &str, backend_name: &str, n: u32, from: u32, to: u32, report: &str) -> Viol {
    Viol {
        unit: u64::MAX - 1,
        oracle: "MIRI".into(),
        class: "miri_report".into(),
        // one report per scenario kind and backend (PAIRS batches differ only in their op range)
        subject: format!("{}/{backend_name}", scenario.split(':').next().unwrap_or(scenario)),
        detail: format!("Miri (seeds {from}..{to}) reported: {report}"),
        replay: json!({"engine": "B", "scenario": scenario, "backend": backend_name, "n": n, "seed_from": from, "seed_to": to,
                       "miri_flags": "-Zmiri-disable-isolation -Zmiri-preemption-rate=0.1 -Zmiri-many-seeds (+ -Zmiri-disable-stacked-borrows on the AVX backends)"}),
    }
}
