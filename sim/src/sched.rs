//! S4: controlled scheduler over real OS threads, and S3's arena monitor.
//!
//! Exactly one simulated thread runs at any instant; the others are parked on a condvar inside
//! a hook. Who runs next is decided only by the PRNG (or a recorded decision list). Hook points
//! live in /repo behind the cargo feature `verif` (poulpy_hal::verif); harness-spawned threads
//! call the same entry points directly.
use crate::prng::Rng;
use std::cell::Cell;
use std::sync::atomic::{AtomicBool, Ordering};
use std::sync::{Condvar, Mutex, MutexGuard};

#[derive(Clone, Debug, PartialEq)]
pub enum Strategy {
    /// threads run to completion, next one picked at random when the current blocks or ends
    Serial,
    /// switch with probability p (permille) at each decision point
    Random(u32),
    /// switch at every decision point to the next runnable thread
    RoundRobin,
    /// random priorities, `d` priority-drop points placed over `horizon` steps
    Pct { d: u32, horizon: u32 },
    /// replay a recorded decision list
    Replay(Vec<u16>),
}

impl Strategy {
    pub fn name(&self) -> String {
        match self {
            Strategy::Serial => "serial".into(),
            Strategy::Random(p) => format!("random({p})"),
            Strategy::RoundRobin => "round-robin".into(),
            Strategy::Pct { d, .. } => format!("pct({d})"),
            Strategy::Replay(_) => "replay".into(),
        }
    }
}

#[derive(Clone, Copy, PartialEq, Debug)]
enum Status {
    NotArrived,
    Runnable,
    BlockedJoin,
    Done,
}

struct Th {
    status: Status,
    parent: Option<usize>,
    children_alive: usize,
    prio: u64,
    /// scope instance this thread was spawned in (parent's counter at spawn time)
    scope: u64,
    /// counter of thread scopes this thread has opened so far
    child_scope: u64,
}

#[derive(Clone, Debug, Default)]
pub struct Take {
    pub tid: usize,
    pub off: i64, // relative to the registered arena base
    pub len: usize,
}

#[derive(Clone, Debug, Default)]
pub struct Report {
    pub decisions: Vec<u16>,
    pub steps: u64,
    pub switches: u64,
    pub threads: usize,
    pub log_hash: u64,
    pub schedule_sig: u64,
    /// (site, a, b, tid) of every yield_point
    pub items: Vec<(u32, usize, usize, usize)>,
    pub takes: u64,
    pub arena_violation: Option<String>,
    pub stuck: bool,
    pub switch_inside_nested: u64,
    pub child_ran_before_parent_finished_spawning: bool,
    pub handoffs: Vec<u64>,
    pub max_take_end: usize,
}

struct Sched {
    threads: Vec<Th>,
    current: usize,
    rng: Rng,
    strategy: Strategy,
    replay_pos: usize,
    pct_points: Vec<u64>,
    step_budget: u64,
    abort: bool,
    rep: Report,
    last_site: u32,
    spawning: bool,
    // arena monitor
    arena: Option<(usize, usize)>,
    bounds: Vec<Option<(usize, usize)>>, // per thread bounding interval of carved bytes
}

static ACTIVE: AtomicBool = AtomicBool::new(false);
/// MIX scenarios (c20): the top-level threads are spawned by the harness and allocate their scratches
/// themselves, one after the other, so address reuse between them is legitimate: DISJOINT is then only
/// checked among the children of library scopes.
pub static HARNESS_TOP_LEVEL: AtomicBool = AtomicBool::new(false);

/// True on a thread that is already running under `run` (a nested `run` would tear the scheduler down).
pub fn nested() -> bool {
    UNSCHEDULED.load(Ordering::Relaxed) || (ACTIVE.load(Ordering::Acquire) && me().is_some())
}
/// Engine B (Miri): plain std threads, no scheduler and no arena monitor at all.
pub static UNSCHEDULED: AtomicBool = AtomicBool::new(false);
static SCHED: Mutex<Option<Sched>> = Mutex::new(None);
static CV: Condvar = Condvar::new();

thread_local! {
    static SIM_ID: Cell<Option<usize>> = const { Cell::new(None) };
}

fn lock() -> MutexGuard<'static, Option<Sched>> {
    SCHED.lock().unwrap_or_else(|e| e.into_inner())
}

fn me() -> Option<usize> {
    SIM_ID.with(|s| s.get())
}

impl Sched {
    fn runnable(&self) -> Vec<usize> {
        (0..self.threads.len()).filter(|i| self.threads[*i].status == Status::Runnable).collect()
    }

    /// Makes one scheduling decision on behalf of thread `cur`.
    fn decide(&mut self, cur: usize, must_switch: bool, site: u32) {
        if self.abort {
            return;
        }
        let run = self.runnable();
        if run.is_empty() {
            // nobody can run: only legal when everything is done
            return;
        }
        self.rep.steps += 1;
        if self.rep.steps > self.step_budget {
            self.abort = true;
            self.rep.stuck = true;
            CV.notify_all();
            return;
        }
        let cur_ok = !must_switch && run.contains(&cur);
        let next: usize = match &self.strategy {
            Strategy::Replay(list) => {
                let want = list.get(self.replay_pos).copied();
                self.replay_pos += 1;
                match want {
                    Some(w) if run.contains(&(w as usize)) => w as usize,
                    _ => {
                        if cur_ok {
                            cur
                        } else {
                            run[0]
                        }
                    }
                }
            }
            Strategy::Serial => {
                if cur_ok {
                    cur
                } else {
                    run[self.rng.below(run.len() as u64) as usize]
                }
            }
            Strategy::Random(p) => {
                let others: Vec<usize> = run.iter().copied().filter(|t| *t != cur).collect();
                if cur_ok && (others.is_empty() || !self.rng.chance(*p as u64)) {
                    cur
                } else if others.is_empty() {
                    run[0]
                } else {
                    others[self.rng.below(others.len() as u64) as usize]
                }
            }
            Strategy::RoundRobin => {
                let after: Vec<usize> = run.iter().copied().filter(|t| *t > cur).collect();
                if let Some(t) = after.first() { *t } else { run[0] }
            }
            Strategy::Pct { .. } => {
                if self.pct_points.contains(&self.rep.steps) && run.contains(&cur) {
                    // priority drop of the running thread
                    self.threads[cur].prio = self.rep.steps; // lower than all initial priorities (which are >= 1<<32)
                }
                let mut best = run[0];
                for t in &run {
                    if self.threads[*t].prio > self.threads[best].prio {
                        best = *t;
                    }
                }
                if must_switch && best == cur {
                    run.iter().copied().find(|t| *t != cur).unwrap_or(cur)
                } else {
                    best
                }
            }
        };
        self.rep.decisions.push(next as u16);
        if next != cur {
            self.rep.switches += 1;
            self.rep.schedule_sig = crate::util::fnv_mix(self.rep.schedule_sig, next as u64 + 1);
            let h = crate::util::fnv_mix(
                crate::util::fnv_mix(site as u64 * 64 + cur as u64, self.last_site as u64),
                next as u64,
            );
            self.rep.handoffs.push(h);
            if site == SITE_TAKE {
                self.rep.switch_inside_nested += 1;
            }
            if self.spawning {
                self.rep.child_ran_before_parent_finished_spawning = true;
            }
        }
        self.rep.log_hash = crate::util::fnv_mix(self.rep.log_hash, (site as u64) << 32 | (cur as u64) << 16 | next as u64);
        self.last_site = site;
        self.current = next;
        CV.notify_all();
    }
}

fn wait_turn(mut g: MutexGuard<'static, Option<Sched>>, id: usize) {
    loop {
        match g.as_ref() {
            None => return,
            Some(s) if s.abort || s.current == id => return,
            _ => {}
        }
        g = CV.wait(g).unwrap_or_else(|e| e.into_inner());
    }
}

pub const SITE_SPAWN: u32 = 100;
pub const SITE_JOIN: u32 = 101;
pub const SITE_END: u32 = 102;
pub const SITE_TAKE: u32 = 103;
pub const SITE_HARNESS: u32 = 104;

// ---- entry points (installed into poulpy_hal::verif and called by harness threads) ----

pub fn spawn_prepare() -> u64 {
    if !ACTIVE.load(Ordering::Acquire) {
        return 0;
    }
    let Some(id) = me() else { return 0 };
    let mut g = lock();
    let Some(s) = g.as_mut() else { return 0 };
    if s.abort {
        return 0;
    }
    let prio = (1u64 << 32) + s.rng.below(1 << 30);
    let scope = s.threads[id].child_scope;
    s.threads.push(Th {
        status: Status::NotArrived,
        parent: Some(id),
        children_alive: 0,
        prio,
        scope,
        child_scope: 0,
    });
    s.bounds.push(None);
    s.threads[id].children_alive += 1;
    s.spawning = true;
    (s.threads.len() - 1) as u64
}

pub fn thread_begin(tok: u64) {
    if tok == 0 || !ACTIVE.load(Ordering::Acquire) {
        return;
    }
    let id = tok as usize;
    SIM_ID.with(|s| s.set(Some(id)));
    let mut g = lock();
    if let Some(s) = g.as_mut() {
        if id < s.threads.len() {
            s.threads[id].status = Status::Runnable;
        }
        CV.notify_all();
    }
    wait_turn(g, id);
}

pub fn after_spawn(tok: u64) {
    if tok == 0 || !ACTIVE.load(Ordering::Acquire) {
        return;
    }
    let Some(id) = me() else { return };
    let mut g = lock();
    // wait for the child's arrival so that the runnable set is a function of the decision prefix
    loop {
        match g.as_ref() {
            None => return,
            Some(s) if s.abort => return,
            Some(s) if s.threads[tok as usize].status != Status::NotArrived => break,
            _ => {}
        }
        g = CV.wait(g).unwrap_or_else(|e| e.into_inner());
    }
    if let Some(s) = g.as_mut() {
        s.decide(id, false, SITE_SPAWN);
    }
    wait_turn(g, id);
}

pub fn thread_end() {
    if !ACTIVE.load(Ordering::Acquire) {
        return;
    }
    let Some(id) = me() else { return };
    SIM_ID.with(|s| s.set(None));
    let mut g = lock();
    let Some(s) = g.as_mut() else { return };
    if id >= s.threads.len() {
        return;
    }
    s.threads[id].status = Status::Done;
    if let Some(p) = s.threads[id].parent {
        s.threads[p].children_alive -= 1;
        if s.threads[p].children_alive == 0 && s.threads[p].status == Status::BlockedJoin {
            s.threads[p].status = Status::Runnable;
        }
    }
    s.decide(id, true, SITE_END);
    CV.notify_all();
}

pub fn join_begin() {
    if !ACTIVE.load(Ordering::Acquire) {
        return;
    }
    let Some(id) = me() else { return };
    let mut g = lock();
    let Some(s) = g.as_mut() else { return };
    if s.abort {
        return;
    }
    s.spawning = false;
    s.threads[id].child_scope += 1;
    if s.threads[id].children_alive > 0 {
        s.threads[id].status = Status::BlockedJoin;
        s.decide(id, true, SITE_JOIN);
    }
    // children of a finished scope are forgotten by the DISJOINT oracle once the parent resumes
    wait_turn(g, id);
}

pub fn yield_point(site: u32, a: usize, b: usize) {
    if !ACTIVE.load(Ordering::Acquire) {
        return;
    }
    let Some(id) = me() else { return };
    let mut g = lock();
    let Some(s) = g.as_mut() else { return };
    s.rep.items.push((site, a, b, id));
    s.rep.log_hash = crate::util::fnv_mix(s.rep.log_hash, (site as u64) << 40 | (a as u64) << 20 | (b as u64) << 8 | id as u64);
    if s.abort {
        return;
    }
    s.decide(id, false, site);
    wait_turn(g, id);
}

pub fn arena_take(parent: (usize, usize), taken: (usize, usize), rem: (usize, usize)) {
    if !ACTIVE.load(Ordering::Acquire) {
        return;
    }
    let id = me();
    let mut g = lock();
    let Some(s) = g.as_mut() else { return };
    let tid = id.unwrap_or(usize::MAX);
    s.rep.takes += 1;
    if std::env::var("SIM_TRACE_TAKES").is_ok() {
        let base = s.arena.map(|a| a.0).unwrap_or(0);
        eprintln!(
            "take tid={tid} parent=[{}, +{}) taken=[{}, +{}) rem=+{}",
            parent.0 as i64 - base as i64,
            parent.1,
            taken.0 as i64 - base as i64,
            taken.1,
            rem.1
        );
    }
    let mut bad: Option<String> = None;
    let (pa, pl) = parent;
    let (ta, tl) = taken;
    let (ra, rl) = rem;
    if let Some((base, len)) = s.arena {
        let rel = |x: usize| x as i64 - base as i64;
        if tl > 0 && (ta < base || ta + tl > base + len) {
            // a carve outside the registered arena: either another scratch (ignored) or a genuine escape.
            // Only report when the parent was inside the arena.
            if pa >= base && pa + pl <= base + len {
                bad = Some(format!("carve [{}, +{tl}) escapes the arena of {len} bytes", rel(ta)));
            }
        } else if pa >= base && pa + pl <= base + len {
            s.rep.log_hash = crate::util::fnv_mix(s.rep.log_hash, (rel(ta) as u64) << 24 | tl as u64);
            if tl > 0 {
                s.rep.max_take_end = s.rep.max_take_end.max(ta + tl - base);
            }
        }
    }
    if bad.is_none() {
        if tl > 0 && (ta < pa || ta + tl > pa + pl) {
            bad = Some(format!("taken range not inside parent (parent len {pl}, taken len {tl})"));
        } else if rl > 0 && (ra < pa || ra + rl > pa + pl) {
            bad = Some(format!("remainder not inside parent (parent len {pl}, remainder len {rl})"));
        } else if tl > 0 && rl > 0 && ta < ra + rl && ra < ta + tl {
            bad = Some("taken range and remainder overlap".into());
        } else if tl > 0 && ta % 64 != 0 {
            bad = Some(format!("taken range not 64-byte aligned (addr mod 64 = {})", ta % 64));
        }
    }
    // DISJOINT across sibling threads
    if bad.is_none() && tid != usize::MAX && tid != 0 && tl > 0 && tid < s.bounds.len() {
        let nb = match s.bounds[tid] {
            None => (ta, ta + tl),
            Some((lo, hi)) => (lo.min(ta), hi.max(ta + tl)),
        };
        s.bounds[tid] = Some(nb);
        for (o, b) in s.bounds.iter().enumerate() {
            if o == tid || o == 0 {
                continue;
            }
            // only siblings of the same scope instance: their windows must stay disjoint for the whole scope
            if s.threads[o].parent != s.threads[tid].parent || s.threads[o].scope != s.threads[tid].scope {
                continue;
            }
            if s.threads[tid].parent == Some(0) && HARNESS_TOP_LEVEL.load(Ordering::Relaxed) {
                continue;
            }
            if let Some((lo, hi)) = b
                && nb.0 < *hi
                && *lo < nb.1
            {
                bad = Some(format!(
                    "scratch bytes carved by thread {tid} overlap bytes carved by thread {o} ({} bytes in common)",
                    hi.min(&nb.1) - lo.max(&nb.0)
                ));
                break;
            }
        }
    }
    if let Some(b) = bad
        && s.rep.arena_violation.is_none()
    {
        s.rep.arena_violation = Some(b);
    }
    if let Some(id) = id {
        if s.abort {
            return;
        }
        s.decide(id, false, SITE_TAKE);
        wait_turn(g, id);
    }
}

/// Installs the hook table into poulpy-hal (once per process).
pub fn install_hooks() {
    poulpy_hal::verif::install(poulpy_hal::verif::Hooks {
        spawn_prepare,
        after_spawn,
        thread_begin,
        thread_end,
        join_begin,
        yield_point,
        arena_take,
    });
}

pub struct Config {
    pub seed: u64,
    pub strategy: Strategy,
    pub step_budget: u64,
    pub arena: Option<(usize, usize)>,
}

/// Runs `f` on the calling thread as simulated thread 0 under the scheduler.
pub fn run<T>(cfg: Config, f: impl FnOnce() -> T) -> (Result<T, String>, Report) {
    let mut rng = Rng::new(cfg.seed);
    let mut pct_points = Vec::new();
    if let Strategy::Pct { d, horizon } = &cfg.strategy {
        for _ in 0..d.saturating_sub(1) {
            pct_points.push(1 + rng.below((*horizon).max(1) as u64));
        }
    }
    {
        let mut g = lock();
        *g = Some(Sched {
            threads: vec![Th {
                status: Status::Runnable,
                parent: None,
                children_alive: 0,
                prio: (1u64 << 32) + rng.below(1 << 30),
                scope: 0,
                child_scope: 0,
            }],
            current: 0,
            rng,
            strategy: cfg.strategy,
            replay_pos: 0,
            pct_points,
            step_budget: cfg.step_budget,
            abort: false,
            rep: Report::default(),
            last_site: 0,
            spawning: false,
            arena: cfg.arena,
            bounds: vec![None],
        });
    }
    SIM_ID.with(|s| s.set(Some(0)));
    ACTIVE.store(true, Ordering::Release);
    let r = crate::util::catch(f);
    ACTIVE.store(false, Ordering::Release);
    SIM_ID.with(|s| s.set(None));
    let mut g = lock();
    let s = g.take().unwrap();
    CV.notify_all();
    let mut rep = s.rep;
    rep.threads = s.threads.len();
    (r, rep)
}

/// Arena monitor without scheduling (single-threaded ops): same contract checks.
pub fn run_monitored<T>(arena: (usize, usize), f: impl FnOnce() -> T) -> (Result<T, String>, Report) {
    run(
        Config {
            seed: 0,
            strategy: Strategy::Serial,
            step_budget: u64::MAX,
            arena: Some(arena),
        },
        f,
    )
}
