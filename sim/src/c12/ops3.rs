//! Third part of the C12 op inventory (same conventions as ops.rs / ops2.rs).
//! Each op: build inputs from the Shape (random contents are fine), ask the library for the
//! declared scratch size, run the call through `windowed`, return the output bytes via `finish`.
macro_rules! core_ops3_impl {
    ($be:ty) => {
        pub mod ops3 {
            #[allow(unused_imports)]
            use super::ops::{finish_pub as finish, src_pub as src, windowed};
            #[allow(unused_imports)]
            use super::*;
            use crate::c12::ops::{Shape, draw};
            #[allow(unused_imports)]
            use poulpy_core::layouts::{
                GGLWE, GGLWELayout, GGLWEPreparedFactory, GGLWEToGGSWKey, GGLWEToGGSWKeyPreparedFactory, GGSW, GGSWPreparedFactory,
                GLWEAutomorphismKey, GLWEAutomorphismKeyPreparedFactory, GLWEPlaintext, GLWESwitchingKey, GLWESwitchingKeyLayout,
                GLWESwitchingKeyPreparedFactory,
            };
            #[allow(unused_imports)]
            use poulpy_core::{
                GGLWEExternalProduct, GGLWEKeyswitch, GGSWAutomorphism, GGSWExternalProduct, GGSWKeyswitch, GLWEAutomorphism,
                GLWEAutomorphismKeyAutomorphism, GLWEAutomorphismKeyEncryptSk,
            };
            #[allow(unused_imports)]
            use poulpy_hal::layouts::{FillUniform, WriterTo};

            pub const OPS3: &[&str] = &[
                "gglwe_keyswitch",
                "gglwe_keyswitch_assign",
                "gglwe_external_product",
                "gglwe_external_product_assign",
                "ggsw_external_product",
                "ggsw_external_product_assign",
                "ggsw_keyswitch",
                "ggsw_keyswitch_assign",
                "ggsw_automorphism",
                "ggsw_automorphism_assign",
                "glwe_automorphism_key_automorphism",
                "glwe_automorphism_key_automorphism_assign",
                "glwe_automorphism_assign",
                "glwe_automorphism_add",
                "glwe_automorphism_add_assign",
                "glwe_automorphism_sub",
                "glwe_automorphism_sub_negate",
                "glwe_automorphism_sub_assign",
                "glwe_automorphism_sub_negate_assign",
                "lwe_keyswitch",
                "lwe_switching_key_prepare",
                "glwe_from_lwe",
                "lwe_to_glwe_key_prepare",
                "lwe_to_glwe_key_encrypt_sk",
                "lwe_from_glwe",
                "lwe_from_glwe_idx0",
                "glwe_to_lwe_key_prepare",
                "glwe_to_lwe_key_encrypt_sk",
                "ggsw_from_gglwe",
                "ggsw_expand_row",
                "gglwe_to_ggsw_key_prepare",
                "gglwe_to_ggsw_key_encrypt_sk",
                "lwe_encrypt_sk",
                "lwe_decrypt",
                "gglwe_encrypt_sk",
                "glwe_automorphism_key_encrypt_sk",
                "glwe_automorphism_key_prepare",
                "gglwe_prepare",
                "glwe_trace",
                "glwe_trace_assign",
                "glwe_pack",
                "glwe_mul_const",
                "glwe_mul_const_assign",
                "glwe_mul_plain",
                "glwe_mul_plain_assign",
                "glwe_tensor_apply",
                "glwe_tensor_apply_add_assign",
                "glwe_tensor_square_apply",
                "glwe_tensor_relinearize",
                "glwe_tensor_key_prepare",
                "glwe_tensor_key_encrypt_sk",
                "glwe_rotate_assign",
                "glwe_mul_xp_minus_one_assign",
                "glwe_normalize_assign",
                "glwe_rsh",
                "glwe_lsh_assign",
                "glwe_lsh",
                "glwe_lsh_add",
                "glwe_lsh_sub",
                "ggsw_rotate_assign",
                "glwe_noise",
                "gglwe_noise",
                "ggsw_noise",
                "glwe_compressed_encrypt_sk",
                "gglwe_compressed_encrypt_sk",
                "ggsw_compressed_encrypt_sk",
                "glwe_switching_key_compressed_encrypt_sk",
                "glwe_automorphism_key_compressed_encrypt_sk",
                "glwe_tensor_key_compressed_encrypt_sk",
                "gglwe_to_ggsw_key_compressed_encrypt_sk",
                "glwe_encrypt_pk",
                "glwe_encrypt_zero_pk",
                "glwe_encrypt_zero_sk",
                "glwe_secret_tensor_prepare",
                "glwe_tensor_decrypt",
                "hal_vec_znx_normalize",
                "hal_vec_znx_big_normalize",
                "hal_vec_znx_big_automorphism_assign",
                "hal_vec_znx_automorphism_assign",
                "hal_vec_znx_rsh",
                "hal_vec_znx_rsh_add_into",
                "hal_vec_znx_rsh_sub",
                "hal_vec_znx_lsh",
                "hal_vec_znx_lsh_add_into",
                "hal_vec_znx_lsh_sub",
                "hal_vec_znx_idft_apply",
                "hal_vmp_prepare",
                "hal_vmp_apply_dft_to_dft",
                "hal_vmp_apply_dft",
                "hal_cnv_prepare_left",
                "hal_cnv_prepare_right",
                "hal_cnv_prepare_self",
                "hal_cnv_apply_dft",
                "hal_cnv_pairwise_apply_dft",
                "hal_cnv_by_const_apply",
                "cmux_assign",
                "cmux_assign_neg",
                "cswap",
                "blind_rotation_execute",
                "blind_rotation_execute_extended",
                "blind_rotation_key_encrypt_sk",
                "blind_rotation_key_prepare",
                "fhe_uint_encrypt_sk",
                "fhe_uint_decrypt",
                "glwe_blind_selection",
                "glwe_blind_rotation",
                "glwe_blind_rotation_assign",
                "glwe_blind_retrieval_statefull",
                "glwe_blind_retrieval_statefull_rev",
                "glwe_blind_retriever_retrieve",
                "ggsw_blind_rotation",
                "ggsw_blind_rotation_assign",
                "scalar_to_ggsw_blind_rotation",
            ];

            fn gl(n: u32, b: u32, k: u32, rank: u32) -> GLWELayout {
                GLWELayout {
                    n: Degree(n),
                    base2k: Base2K(b),
                    k: TorusPrecision(k),
                    rank: Rank(rank),
                }
            }

            #[allow(dead_code)]
            fn skp(c: &Ctx, rank: u32, seed: u64) -> (GLWESecret<Vec<u8>>, GLWESecretPrepared<DeviceBuf<BE>, BE>) {
                let mut s: GLWESecret<Vec<u8>> = GLWESecret::alloc(Degree(c.n), Rank(rank));
                s.fill_ternary_prob(0.5, &mut src(seed, 1));
                let mut p: GLWESecretPrepared<DeviceBuf<BE>, BE> = c.module.glwe_secret_prepared_alloc(Rank(rank));
                c.module.glwe_secret_prepare(&mut p, &s);
                (s, p)
            }

            fn ser<T: WriterTo>(x: &T) -> Vec<u8> {
                let mut bytes = Vec::new();
                x.write_to(&mut bytes).unwrap();
                bytes
            }

            /// A gadget ciphertext layout with digits of `ds` limbs in radix `b` of about `k` bits: (k, size, dnum)
            /// (the layouts want `size > dsize` and `dnum * dsize <= size`).
            fn gadget_ct(b: u32, k: u32, extra: u32, ds: u32) -> (u32, u32, u32) {
                let k = k.max(b * ds + 1);
                let size = k.div_ceil(b);
                (k, size, 1 + extra % (size / ds))
            }

            fn ksk_layout(sh: &Shape, rank_in: u32, rank_out: u32) -> GLWESwitchingKeyLayout {
                GLWESwitchingKeyLayout {
                    n: Degree(sh.n),
                    base2k: Base2K(sh.b_key),
                    k: TorusPrecision(sh.k_key),
                    dnum: Dnum(sh.dnum()),
                    dsize: Dsize(sh.dsize),
                    rank_in: Rank(rank_in),
                    rank_out: Rank(rank_out),
                }
            }

            fn atk_layout(sh: &Shape, rank: u32) -> GLWEAutomorphismKeyLayout {
                GLWEAutomorphismKeyLayout {
                    n: Degree(sh.n),
                    base2k: Base2K(sh.b_key),
                    k: TorusPrecision(sh.k_key),
                    rank: Rank(rank),
                    dnum: Dnum(sh.dnum()),
                    dsize: Dsize(sh.dsize),
                }
            }

            fn tsk_layout(sh: &Shape, rank: u32) -> GGLWEToGGSWKeyLayout {
                GGLWEToGGSWKeyLayout {
                    n: Degree(sh.n),
                    base2k: Base2K(sh.b_key),
                    k: TorusPrecision(sh.k_key),
                    rank: Rank(rank),
                    dnum: Dnum(sh.dnum()),
                    dsize: Dsize(sh.dsize),
                }
            }

            fn ggsw_key_layout(sh: &Shape, rank: u32) -> GGSWLayout {
                GGSWLayout {
                    n: Degree(sh.n),
                    base2k: Base2K(sh.b_key),
                    k: TorusPrecision(sh.k_key),
                    rank: Rank(rank),
                    dnum: Dnum(sh.dnum()),
                    dsize: Dsize(sh.dsize),
                }
            }

            /// An automorphism key for Galois element `p`, encrypted for real (the element matters).
            fn atk_real(
                c: &Ctx,
                sh: &Shape,
                rank: u32,
                p: i64,
                big: &mut ScratchOwned<BE>,
            ) -> GLWEAutomorphismKey<Vec<u8>> {
                let infos = atk_layout(sh, rank);
                let mut atk: GLWEAutomorphismKey<Vec<u8>> = GLWEAutomorphismKey::alloc_from_infos(&infos);
                let enc = EncryptionLayout::new_from_default_sigma(infos).unwrap();
                let (s0, _) = skp(c, rank, sh.seed);
                c.module
                    .glwe_automorphism_key_encrypt_sk(&mut atk, p, &s0, &enc, &mut src(sh.seed, 3), &mut src(sh.seed, 4), big.borrow());
                atk
            }

            #[allow(unused_variables)]
            pub fn core_op3(op: &str, sh: &Shape, w: &Window) -> Option<RunResult> {
                if !OPS3.contains(&op) {
                    return None;
                }
                let c = ctx(sh.n, 1);
                let m = &c.module;
                let mut big: ScratchOwned<BE> = ScratchOwned::alloc(1 << 22);
                // digit size of the gadget ciphertexts being transformed (source and destination share it: entry
                // asserts); one draw in three has two-limb digits
                let ds: u32 = if (sh.seed >> 52) % 3 == 0 { 2 } else { 1 };
                let r = match op {
                    "gglwe_keyswitch" | "gglwe_keyswitch_assign" => {
                        let r0 = 1 + (sh.extra & 1);
                        // in place: the key maps rank_out -> rank_out
                        let ksk_infos = ksk_layout(sh, if op == "gglwe_keyswitch" { sh.rank_in } else { sh.rank_out }, sh.rank_out);
                        let mut ksk: GLWESwitchingKey<Vec<u8>> = GLWESwitchingKey::alloc_from_infos(&ksk_infos);
                        ksk.fill_uniform(sh.b_key as usize, &mut src(sh.seed, 2));
                        let mut kp = m.glwe_switching_key_prepared_alloc_from_infos(&ksk);
                        m.glwe_switching_key_prepare(&mut kp, &ksk, big.borrow());
                        let (k_a, size_a, dnum_a) = gadget_ct(sh.b_in, sh.k_in, sh.extra >> 1, ds);
                        if op == "gglwe_keyswitch" {
                            let a_infos = GGLWELayout {
                                n: Degree(sh.n),
                                base2k: Base2K(sh.b_in),
                                k: TorusPrecision(k_a),
                                rank_in: Rank(r0),
                                rank_out: Rank(sh.rank_in),
                                dnum: Dnum(dnum_a),
                                dsize: Dsize(ds),
                            };
                            let (k_r, size_r, _) = gadget_ct(sh.b_in, sh.k_res, 0, ds);
                            let res_infos = GGLWELayout {
                                n: Degree(sh.n),
                                base2k: Base2K(sh.b_in),
                                k: TorusPrecision(k_r),
                                rank_in: Rank(r0),
                                rank_out: Rank(sh.rank_out),
                                dnum: Dnum(dnum_a.min(size_r / ds)),
                                dsize: Dsize(ds),
                            };
                            let mut a: GGLWE<Vec<u8>> = GGLWE::alloc_from_infos(&a_infos);
                            a.fill_uniform(sh.b_in as usize, &mut src(sh.seed, 6));
                            let mut res: GGLWE<Vec<u8>> = GGLWE::alloc_from_infos(&res_infos);
                            let declared = m.gglwe_keyswitch_tmp_bytes(&res_infos, &a_infos, &ksk_infos);
                            let r = windowed(declared, w, &mut |s| m.gglwe_keyswitch(&mut res, &a, &kp, s));
                            finish(r, declared, vec![ser(&res)])
                        } else {
                            let io = GGLWELayout {
                                n: Degree(sh.n),
                                base2k: Base2K(sh.b_in),
                                k: TorusPrecision(k_a),
                                rank_in: Rank(r0),
                                rank_out: Rank(sh.rank_out),
                                dnum: Dnum(dnum_a),
                                dsize: Dsize(ds),
                            };
                            let mut res: GGLWE<Vec<u8>> = GGLWE::alloc_from_infos(&io);
                            res.fill_uniform(sh.b_in as usize, &mut src(sh.seed, 6));
                            let declared = m.gglwe_keyswitch_tmp_bytes(&io, &io, &ksk_infos);
                            let r = windowed(declared, w, &mut |s| m.gglwe_keyswitch_assign(&mut res, &kp, s));
                            finish(r, declared, vec![ser(&res)])
                        }
                    }
                    "gglwe_external_product"
                    | "gglwe_external_product_assign"
                    | "ggsw_external_product"
                    | "ggsw_external_product_assign" => {
                        let rank = sh.rank_out;
                        let r0 = 1 + (sh.extra & 1);
                        let ggsw_infos = ggsw_key_layout(sh, rank);
                        let mut ggsw: GGSW<Vec<u8>> = GGSW::alloc_from_infos(&ggsw_infos);
                        ggsw.fill_uniform(sh.b_key as usize, &mut src(sh.seed, 2));
                        let mut gp = m.ggsw_prepared_alloc_from_infos(&ggsw);
                        m.ggsw_prepare(&mut gp, &ggsw, big.borrow());
                        let (k_a, size_a, dnum_a) = gadget_ct(sh.b_in, sh.k_in, sh.extra >> 1, ds);
                        let (k_r, size_r, dnum_r) = gadget_ct(sh.b_in, sh.k_res, sh.extra >> 2, ds);
                        if op.starts_with("gglwe") {
                            let a_infos = GGLWELayout {
                                n: Degree(sh.n),
                                base2k: Base2K(sh.b_in),
                                k: TorusPrecision(k_a),
                                rank_in: Rank(r0),
                                rank_out: Rank(rank),
                                dnum: Dnum(dnum_a),
                                dsize: Dsize(ds),
                            };
                            let res_infos = GGLWELayout {
                                n: Degree(sh.n),
                                base2k: Base2K(sh.b_in),
                                k: TorusPrecision(k_r),
                                rank_in: Rank(r0),
                                rank_out: Rank(rank),
                                // (the op indexes rows of `a` up to res.dnum: more rows than `a` has is not admissible)
                                dnum: Dnum(dnum_r.min(dnum_a)),
                                dsize: Dsize(ds),
                            };
                            let mut a: GGLWE<Vec<u8>> = GGLWE::alloc_from_infos(&a_infos);
                            a.fill_uniform(sh.b_in as usize, &mut src(sh.seed, 6));
                            if op == "gglwe_external_product" {
                                let mut res: GGLWE<Vec<u8>> = GGLWE::alloc_from_infos(&res_infos);
                                let declared = m.gglwe_external_product_tmp_bytes(&res_infos, &a_infos, &ggsw_infos);
                                let r = windowed(declared, w, &mut |s| m.gglwe_external_product(&mut res, &a, &gp, s));
                                finish(r, declared, vec![ser(&res)])
                            } else {
                                let declared = m.gglwe_external_product_tmp_bytes(&a_infos, &a_infos, &ggsw_infos);
                                let r = windowed(declared, w, &mut |s| m.gglwe_external_product_assign(&mut a, &gp, s));
                                finish(r, declared, vec![ser(&a)])
                            }
                        } else {
                            let a_infos = GGSWLayout {
                                n: Degree(sh.n),
                                base2k: Base2K(sh.b_in),
                                k: TorusPrecision(k_a),
                                rank: Rank(rank),
                                dnum: Dnum(dnum_a),
                                dsize: Dsize(ds),
                            };
                            let res_infos = GGSWLayout {
                                n: Degree(sh.n),
                                base2k: Base2K(sh.b_in),
                                k: TorusPrecision(k_r),
                                rank: Rank(rank),
                                dnum: Dnum(dnum_r),
                                dsize: Dsize(ds),
                            };
                            let mut a: GGSW<Vec<u8>> = GGSW::alloc_from_infos(&a_infos);
                            a.fill_uniform(sh.b_in as usize, &mut src(sh.seed, 6));
                            if op == "ggsw_external_product" {
                                let mut res: GGSW<Vec<u8>> = GGSW::alloc_from_infos(&res_infos);
                                let declared = m.ggsw_external_product_tmp_bytes(&res_infos, &a_infos, &ggsw_infos);
                                let r = windowed(declared, w, &mut |s| m.ggsw_external_product(&mut res, &a, &gp, s));
                                finish(r, declared, vec![ser(&res)])
                            } else {
                                let declared = m.ggsw_external_product_tmp_bytes(&a_infos, &a_infos, &ggsw_infos);
                                let r = windowed(declared, w, &mut |s| m.ggsw_external_product_assign(&mut a, &gp, s));
                                finish(r, declared, vec![ser(&a)])
                            }
                        }
                    }
                    "ggsw_keyswitch" | "ggsw_keyswitch_assign" | "ggsw_automorphism" | "ggsw_automorphism_assign" => {
                        let rank = sh.rank_out;
                        let tsk_infos = tsk_layout(sh, rank);
                        let mut tsk: GGLWEToGGSWKey<Vec<u8>> = GGLWEToGGSWKey::alloc_from_infos(&tsk_infos);
                        tsk.fill_uniform(sh.b_key as usize, &mut src(sh.seed, 7));
                        let mut tp = m.gglwe_to_ggsw_key_prepared_alloc_from_infos(&tsk);
                        m.gglwe_to_ggsw_key_prepare(&mut tp, &tsk, big.borrow());
                        let (k_a, size_a, dnum_a) = gadget_ct(sh.b_in, sh.k_in, sh.extra, ds);
                        let (k_r, size_r, _) = gadget_ct(sh.b_in, sh.k_res, 0, ds);
                        let a_infos = GGSWLayout {
                            n: Degree(sh.n),
                            base2k: Base2K(sh.b_in),
                            k: TorusPrecision(k_a),
                            rank: Rank(rank),
                            dnum: Dnum(dnum_a),
                            dsize: Dsize(ds),
                        };
                        let res_infos = GGSWLayout {
                            n: Degree(sh.n),
                            base2k: Base2K(sh.b_in),
                            k: TorusPrecision(k_r),
                            rank: Rank(rank),
                            dnum: Dnum(dnum_a.min(size_r / ds)),
                            dsize: Dsize(ds),
                        };
                        let mut a: GGSW<Vec<u8>> = GGSW::alloc_from_infos(&a_infos);
                        a.fill_uniform(sh.b_in as usize, &mut src(sh.seed, 6));
                        let mut res: GGSW<Vec<u8>> = GGSW::alloc_from_infos(&res_infos);
                        if op.starts_with("ggsw_keyswitch") {
                            let ksk_infos = ksk_layout(sh, rank, rank);
                            let mut ksk: GLWESwitchingKey<Vec<u8>> = GLWESwitchingKey::alloc_from_infos(&ksk_infos);
                            ksk.fill_uniform(sh.b_key as usize, &mut src(sh.seed, 2));
                            let mut kp = m.glwe_switching_key_prepared_alloc_from_infos(&ksk);
                            m.glwe_switching_key_prepare(&mut kp, &ksk, big.borrow());
                            if op == "ggsw_keyswitch" {
                                let declared = m.ggsw_keyswitch_tmp_bytes(&res_infos, &a_infos, &ksk_infos, &tsk_infos);
                                let r = windowed(declared, w, &mut |s| m.ggsw_keyswitch(&mut res, &a, &kp, &tp, s));
                                finish(r, declared, vec![ser(&res)])
                            } else {
                                let declared = m.ggsw_keyswitch_tmp_bytes(&a_infos, &a_infos, &ksk_infos, &tsk_infos);
                                let r = windowed(declared, w, &mut |s| m.ggsw_keyswitch_assign(&mut a, &kp, &tp, s));
                                finish(r, declared, vec![ser(&a)])
                            }
                        } else {
                            let atk_infos = atk_layout(sh, rank);
                            // any odd Galois element (contract: `X -> X^k` for odd k, taken mod 2N)
                            let atk = atk_real(c, sh, rank, draw::galois(sh.seed >> 44, sh.n), &mut big);
                            let mut ap = m.glwe_automorphism_key_prepared_alloc_from_infos(&atk);
                            m.glwe_automorphism_key_prepare(&mut ap, &atk, big.borrow());
                            if op == "ggsw_automorphism" {
                                let declared = m.ggsw_automorphism_tmp_bytes(&res_infos, &a_infos, &atk_infos, &tsk_infos);
                                let r = windowed(declared, w, &mut |s| m.ggsw_automorphism(&mut res, &a, &ap, &tp, s));
                                finish(r, declared, vec![ser(&res)])
                            } else {
                                let declared = m.ggsw_automorphism_tmp_bytes(&a_infos, &a_infos, &atk_infos, &tsk_infos);
                                let r = windowed(declared, w, &mut |s| m.ggsw_automorphism_assign(&mut a, &ap, &tp, s));
                                finish(r, declared, vec![ser(&a)])
                            }
                        }
                    }
                    "glwe_automorphism_key_automorphism" | "glwe_automorphism_key_automorphism_assign" => {
                        let rank = sh.rank_out;
                        let atk_infos = atk_layout(sh, rank);
                        // both elements are any odd integers (they may coincide, be inverses of each other, be 1 or -1)
                        let atk = atk_real(c, sh, rank, draw::galois(sh.seed >> 44, sh.n), &mut big);
                        let mut ap = m.glwe_automorphism_key_prepared_alloc_from_infos(&atk);
                        m.glwe_automorphism_key_prepare(&mut ap, &atk, big.borrow());
                        // the key being transformed: radix b_in
                        let (k_a, size_a, dnum_a) = gadget_ct(sh.b_in, sh.k_in, sh.extra, ds);
                        let (k_r, size_r, _) = gadget_ct(sh.b_in, sh.k_res, 0, ds);
                        let a_infos = GLWEAutomorphismKeyLayout {
                            n: Degree(sh.n),
                            base2k: Base2K(sh.b_in),
                            k: TorusPrecision(k_a),
                            rank: Rank(rank),
                            dnum: Dnum(dnum_a),
                            dsize: Dsize(ds),
                        };
                        let res_infos = GLWEAutomorphismKeyLayout {
                            n: Degree(sh.n),
                            base2k: Base2K(sh.b_in),
                            k: TorusPrecision(k_r),
                            rank: Rank(rank),
                            dnum: Dnum(dnum_a.min(size_r / ds)),
                            dsize: Dsize(ds),
                        };
                        let mut a: GLWEAutomorphismKey<Vec<u8>> = GLWEAutomorphismKey::alloc_from_infos(&a_infos);
                        {
                            let enc = EncryptionLayout::new_from_default_sigma(a_infos).unwrap();
                            let (s0, _) = skp(c, rank, sh.seed);
                            m.glwe_automorphism_key_encrypt_sk(
                                &mut a,
                                draw::galois(sh.seed >> 49, sh.n),
                                &s0,
                                &enc,
                                &mut src(sh.seed, 8),
                                &mut src(sh.seed, 9),
                                big.borrow(),
                            );
                        }
                        if op == "glwe_automorphism_key_automorphism" {
                            let mut res: GLWEAutomorphismKey<Vec<u8>> = GLWEAutomorphismKey::alloc_from_infos(&res_infos);
                            let declared = m.glwe_automorphism_key_automorphism_tmp_bytes(&res_infos, &a_infos, &atk_infos);
                            let r = windowed(declared, w, &mut |s| m.glwe_automorphism_key_automorphism(&mut res, &a, &ap, s));
                            finish(r, declared, vec![ser(&res)])
                        } else {
                            let declared = m.glwe_automorphism_key_automorphism_tmp_bytes(&a_infos, &a_infos, &atk_infos);
                            let r = windowed(declared, w, &mut |s| m.glwe_automorphism_key_automorphism_assign(&mut a, &ap, s));
                            finish(r, declared, vec![ser(&a)])
                        }
                    }
                    "glwe_automorphism_assign"
                    | "glwe_automorphism_add"
                    | "glwe_automorphism_add_assign"
                    | "glwe_automorphism_sub"
                    | "glwe_automorphism_sub_negate"
                    | "glwe_automorphism_sub_assign"
                    | "glwe_automorphism_sub_negate_assign" => {
                        let rank = sh.rank_out;
                        let in_infos = gl(sh.n, sh.b_in, sh.k_in, rank);
                        let out_infos = gl(sh.n, sh.b_res, sh.k_res, rank);
                        let atk_infos = atk_layout(sh, rank);
                        let atk = atk_real(c, sh, rank, draw::galois(sh.seed >> 44, sh.n), &mut big);
                        let mut ap = m.glwe_automorphism_key_prepared_alloc_from_infos(&atk);
                        m.glwe_automorphism_key_prepare(&mut ap, &atk, big.borrow());
                        let mut a: GLWE<Vec<u8>> = GLWE::alloc_from_infos(&in_infos);
                        a.fill_uniform(sh.b_in as usize, &mut src(sh.seed, 6));
                        if op.ends_with("_assign") {
                            let declared = m.glwe_automorphism_tmp_bytes(&in_infos, &in_infos, &atk_infos);
                            let r = match op {
                                "glwe_automorphism_assign" => windowed(declared, w, &mut |s| m.glwe_automorphism_assign(&mut a, &ap, s)),
                                "glwe_automorphism_add_assign" => {
                                    windowed(declared, w, &mut |s| m.glwe_automorphism_add_assign(&mut a, &ap, s))
                                }
                                "glwe_automorphism_sub_assign" => {
                                    windowed(declared, w, &mut |s| m.glwe_automorphism_sub_assign(&mut a, &ap, s))
                                }
                                _ => windowed(declared, w, &mut |s| m.glwe_automorphism_sub_negate_assign(&mut a, &ap, s)),
                            };
                            finish(r, declared, vec![a.data().data.clone()])
                        } else {
                            // accumulating variants: the receiver holds data already
                            let mut res: GLWE<Vec<u8>> = GLWE::alloc_from_infos(&out_infos);
                            res.fill_uniform(sh.b_res as usize, &mut src(sh.seed, 7));
                            let declared = m.glwe_automorphism_tmp_bytes(&out_infos, &in_infos, &atk_infos);
                            let r = match op {
                                "glwe_automorphism_add" => windowed(declared, w, &mut |s| m.glwe_automorphism_add(&mut res, &a, &ap, s)),
                                "glwe_automorphism_sub" => windowed(declared, w, &mut |s| m.glwe_automorphism_sub(&mut res, &a, &ap, s)),
                                _ => windowed(declared, w, &mut |s| m.glwe_automorphism_sub_negate(&mut res, &a, &ap, s)),
                            };
                            finish(r, declared, vec![res.data().data.clone()])
                        }
                    }
                    _ => return core_op3_b(op, sh, w),
                };
                Some(r)
            }

            /// LWE side: conversions, LWE key switching, LWE encryption / decryption, and the evaluation-key generators.
            fn core_op3_b(op: &str, sh: &Shape, w: &Window) -> Option<RunResult> {
                use poulpy_core::layouts::{
                    GLWEToLWEKey, GLWEToLWEKeyPreparedFactory, LWE, LWELayout, LWEPlaintext, LWESwitchingKey, LWESwitchingKeyLayout,
                    LWESwitchingKeyPreparedFactory, LWEToGLWEKey, LWEToGLWEKeyLayout, LWEToGLWEKeyPreparedFactory,
                };
                use poulpy_core::{
                    GGLWEEncryptSk, GGLWEToGGSWKeyEncryptSk, GGSWExpandRows, GGSWFromGGLWE, GLWEFromLWE, GLWEToLWESwitchingKeyEncryptSk,
                    LWEDecrypt, LWEEncryptSk, LWEFromGLWE, LWEKeySwitch, LWEToGLWESwitchingKeyEncryptSk,
                };
                let c = ctx(sh.n, 1);
                let m = &c.module;
                let mut big: ScratchOwned<BE> = ScratchOwned::alloc(1 << 22);
                // LWE-side keys have dsize 1: rows cover the input
                let dnum1 = sh.k_in.div_ceil(sh.b_key).max(1);
                let n_lwe = sh.n_lwe.min(sh.n).max(1);
                let r = match op {
                    "lwe_keyswitch" | "lwe_switching_key_prepare" => {
                        let n_out = ((sh.n_lwe + 1 + sh.extra) % sh.n).max(1);
                        let key_infos = LWESwitchingKeyLayout {
                            n: Degree(sh.n),
                            base2k: Base2K(sh.b_key),
                            k: TorusPrecision(sh.k_key),
                            dnum: Dnum(dnum1),
                        };
                        let mut key: LWESwitchingKey<Vec<u8>> = LWESwitchingKey::alloc_from_infos(&key_infos);
                        key.fill_uniform(sh.b_key as usize, &mut src(sh.seed, 2));
                        let mut kp = m.lwe_switching_key_prepared_alloc_from_infos(&key);
                        let a_infos = LWELayout {
                            n: Degree(n_lwe),
                            k: TorusPrecision(sh.k_in),
                            base2k: Base2K(sh.b_in),
                        };
                        let res_infos = LWELayout {
                            n: Degree(n_out),
                            k: TorusPrecision(sh.k_res),
                            base2k: Base2K(sh.b_res),
                        };
                        let mut a: LWE<Vec<u8>> = LWE::alloc_from_infos(&a_infos);
                        a.fill_uniform(sh.b_in as usize, &mut src(sh.seed, 6));
                        let mut res: LWE<Vec<u8>> = LWE::alloc_from_infos(&res_infos);
                        if op == "lwe_switching_key_prepare" {
                            let declared = m.lwe_switching_key_prepare_tmp_bytes(&key);
                            let r = windowed(declared, w, &mut |s| m.lwe_switching_key_prepare(&mut kp, &key, s));
                            if r.0.is_ok() {
                                m.lwe_keyswitch(&mut res, &a, &kp, big.borrow());
                            }
                            return Some(finish(r, declared, vec![ser(&res)]));
                        }
                        m.lwe_switching_key_prepare(&mut kp, &key, big.borrow());
                        let declared = m.lwe_keyswitch_tmp_bytes(&res_infos, &a_infos, &key_infos);
                        let r = windowed(declared, w, &mut |s| m.lwe_keyswitch(&mut res, &a, &kp, s));
                        finish(r, declared, vec![ser(&res)])
                    }
                    "glwe_from_lwe" | "lwe_to_glwe_key_prepare" | "lwe_to_glwe_key_encrypt_sk" => {
                        let key_infos = LWEToGLWEKeyLayout {
                            n: Degree(sh.n),
                            base2k: Base2K(sh.b_key),
                            k: TorusPrecision(sh.k_key),
                            rank_out: Rank(sh.rank_out),
                            dnum: Dnum(dnum1),
                        };
                        let mut key: LWEToGLWEKey<Vec<u8>> = LWEToGLWEKey::alloc_from_infos(&key_infos);
                        if op == "lwe_to_glwe_key_encrypt_sk" {
                            let enc = EncryptionLayout::new_from_default_sigma(key_infos).unwrap();
                            let mut s_lwe: LWESecret<Vec<u8>> = LWESecret::alloc(Degree(n_lwe));
                            s_lwe.fill_binary_prob(0.5, &mut src(sh.seed, 1));
                            let (_s, sp) = skp(c, sh.rank_out, sh.seed);
                            let declared = m.lwe_to_glwe_key_encrypt_sk_tmp_bytes(&key_infos);
                            let r = windowed(declared, w, &mut |s| {
                                m.lwe_to_glwe_key_encrypt_sk(&mut key, &s_lwe, &sp, &enc, &mut src(sh.seed, 3), &mut src(sh.seed, 4), s)
                            });
                            return Some(finish(r, declared, vec![ser(&key)]));
                        }
                        key.fill_uniform(sh.b_key as usize, &mut src(sh.seed, 2));
                        let mut kp = m.lwe_to_glwe_key_prepared_alloc_from_infos(&key);
                        let a_infos = LWELayout {
                            n: Degree(n_lwe),
                            k: TorusPrecision(sh.k_in),
                            base2k: Base2K(sh.b_in),
                        };
                        let res_infos = gl(sh.n, sh.b_res, sh.k_res, sh.rank_out);
                        let mut a: LWE<Vec<u8>> = LWE::alloc_from_infos(&a_infos);
                        a.fill_uniform(sh.b_in as usize, &mut src(sh.seed, 6));
                        let mut res: GLWE<Vec<u8>> = GLWE::alloc_from_infos(&res_infos);
                        if op == "lwe_to_glwe_key_prepare" {
                            let declared = m.lwe_to_glwe_key_prepare_tmp_bytes(&key);
                            let r = windowed(declared, w, &mut |s| m.lwe_to_glwe_key_prepare(&mut kp, &key, s));
                            if r.0.is_ok() {
                                m.glwe_from_lwe(&mut res, &a, &kp, big.borrow());
                            }
                            return Some(finish(r, declared, vec![res.data().data.clone()]));
                        }
                        m.lwe_to_glwe_key_prepare(&mut kp, &key, big.borrow());
                        let declared = m.glwe_from_lwe_tmp_bytes(&res_infos, &a_infos, &key_infos);
                        let r = windowed(declared, w, &mut |s| m.glwe_from_lwe(&mut res, &a, &kp, s));
                        finish(r, declared, vec![res.data().data.clone()])
                    }
                    "lwe_from_glwe" | "lwe_from_glwe_idx0" | "glwe_to_lwe_key_prepare" | "glwe_to_lwe_key_encrypt_sk" => {
                        let key_infos = GLWEToLWEKeyLayout {
                            n: Degree(sh.n),
                            base2k: Base2K(sh.b_key),
                            k: TorusPrecision(sh.k_key),
                            rank_in: Rank(sh.rank_in),
                            dnum: Dnum(dnum1),
                        };
                        let mut key: GLWEToLWEKey<Vec<u8>> = GLWEToLWEKey::alloc_from_infos(&key_infos);
                        if op == "glwe_to_lwe_key_encrypt_sk" {
                            let enc = EncryptionLayout::new_from_default_sigma(key_infos).unwrap();
                            let mut s_lwe: LWESecret<Vec<u8>> = LWESecret::alloc(Degree(n_lwe));
                            s_lwe.fill_binary_prob(0.5, &mut src(sh.seed, 1));
                            let (sg, _) = skp(c, sh.rank_in, sh.seed);
                            let declared = m.glwe_to_lwe_key_encrypt_sk_tmp_bytes(&key_infos);
                            let r = windowed(declared, w, &mut |s| {
                                m.glwe_to_lwe_key_encrypt_sk(&mut key, &s_lwe, &sg, &enc, &mut src(sh.seed, 3), &mut src(sh.seed, 4), s)
                            });
                            return Some(finish(r, declared, vec![ser(&key)]));
                        }
                        key.fill_uniform(sh.b_key as usize, &mut src(sh.seed, 2));
                        let mut kp = m.glwe_to_lwe_key_prepared_alloc_from_infos(&key);
                        let a_infos = gl(sh.n, sh.b_in, sh.k_in, sh.rank_in);
                        let res_infos = LWELayout {
                            n: Degree(n_lwe),
                            k: TorusPrecision(sh.k_res),
                            base2k: Base2K(sh.b_res),
                        };
                        let mut a: GLWE<Vec<u8>> = GLWE::alloc_from_infos(&a_infos);
                        a.fill_uniform(sh.b_in as usize, &mut src(sh.seed, 6));
                        let mut res: LWE<Vec<u8>> = LWE::alloc_from_infos(&res_infos);
                        // coefficient to extract: first, last, middle, anywhere in 1..N (index 0 takes another path: `_idx0`)
                        let idx = if op == "lwe_from_glwe_idx0" { 0 } else { 1 + draw::index(sh.seed >> 12, sh.n as usize - 1) };
                        if op == "glwe_to_lwe_key_prepare" {
                            let declared = m.glwe_to_lwe_key_prepare_tmp_bytes(&key);
                            let r = windowed(declared, w, &mut |s| m.glwe_to_lwe_key_prepare(&mut kp, &key, s));
                            if r.0.is_ok() {
                                m.lwe_from_glwe(&mut res, &a, idx, &kp, big.borrow());
                            }
                            return Some(finish(r, declared, vec![ser(&res)]));
                        }
                        m.glwe_to_lwe_key_prepare(&mut kp, &key, big.borrow());
                        let declared = m.lwe_from_glwe_tmp_bytes(&res_infos, &a_infos, &key_infos);
                        let r = windowed(declared, w, &mut |s| m.lwe_from_glwe(&mut res, &a, idx, &kp, s));
                        finish(r, declared, vec![ser(&res)])
                    }
                    "ggsw_from_gglwe" | "ggsw_expand_row" | "gglwe_to_ggsw_key_prepare" | "gglwe_to_ggsw_key_encrypt_sk" => {
                        let rank = sh.rank_out;
                        let tsk_infos = tsk_layout(sh, rank);
                        let mut tsk: GGLWEToGGSWKey<Vec<u8>> = GGLWEToGGSWKey::alloc_from_infos(&tsk_infos);
                        if op == "gglwe_to_ggsw_key_encrypt_sk" {
                            let enc = EncryptionLayout::new_from_default_sigma(tsk_infos).unwrap();
                            let (s0, _) = skp(c, rank, sh.seed);
                            let declared = m.gglwe_to_ggsw_key_encrypt_sk_tmp_bytes(&tsk_infos);
                            let r = windowed(declared, w, &mut |s| {
                                m.gglwe_to_ggsw_key_encrypt_sk(&mut tsk, &s0, &enc, &mut src(sh.seed, 3), &mut src(sh.seed, 4), s)
                            });
                            return Some(finish(r, declared, vec![ser(&tsk)]));
                        }
                        tsk.fill_uniform(sh.b_key as usize, &mut src(sh.seed, 7));
                        let mut tp = m.gglwe_to_ggsw_key_prepared_alloc_from_infos(&tsk);
                        let (k_r, _size_r, dnum_r) = gadget_ct(sh.b_res, sh.k_res, sh.extra, 1);
                        let res_infos = GGSWLayout {
                            n: Degree(sh.n),
                            base2k: Base2K(sh.b_res),
                            k: TorusPrecision(k_r),
                            rank: Rank(rank),
                            dnum: Dnum(dnum_r),
                            dsize: Dsize(1),
                        };
                        // the source shares radix, rank and rows with the result (entry asserts); its precision is its own
                        // (narrower or wider than the result: the rows are copied limb-wise), as long as it holds the rows
                        let k_a = if sh.extra & 4 == 0 { k_r } else { sh.k_in.max(sh.b_res * dnum_r).max(sh.b_res + 1) };
                        let a_infos = GGLWELayout {
                            n: Degree(sh.n),
                            base2k: Base2K(sh.b_res),
                            k: TorusPrecision(k_a),
                            rank_in: Rank(1),
                            rank_out: Rank(rank),
                            dnum: Dnum(dnum_r),
                            dsize: Dsize(1),
                        };
                        let mut a: GGLWE<Vec<u8>> = GGLWE::alloc_from_infos(&a_infos);
                        a.fill_uniform(sh.b_res as usize, &mut src(sh.seed, 6));
                        let mut res: GGSW<Vec<u8>> = GGSW::alloc_from_infos(&res_infos);
                        if op == "gglwe_to_ggsw_key_prepare" {
                            let declared = m.gglwe_to_ggsw_key_prepare_tmp_bytes(&tsk);
                            let r = windowed(declared, w, &mut |s| m.gglwe_to_ggsw_key_prepare(&mut tp, &tsk, s));
                            if r.0.is_ok() {
                                m.ggsw_from_gglwe(&mut res, &a, &tp, big.borrow());
                            }
                            return Some(finish(r, declared, vec![ser(&res)]));
                        }
                        m.gglwe_to_ggsw_key_prepare(&mut tp, &tsk, big.borrow());
                        if op == "ggsw_from_gglwe" {
                            let declared = m.ggsw_from_gglwe_tmp_bytes(&res_infos, &tsk_infos);
                            let r = windowed(declared, w, &mut |s| m.ggsw_from_gglwe(&mut res, &a, &tp, s));
                            finish(r, declared, vec![ser(&res)])
                        } else {
                            res.fill_uniform(sh.b_res as usize, &mut src(sh.seed, 8));
                            let declared = m.ggsw_expand_rows_tmp_bytes(&res_infos, &tsk_infos);
                            let r = windowed(declared, w, &mut |s| m.ggsw_expand_row(&mut res, &tp, s));
                            finish(r, declared, vec![ser(&res)])
                        }
                    }
                    "lwe_encrypt_sk" | "lwe_decrypt" => {
                        let infos = LWELayout {
                            n: Degree(n_lwe),
                            k: TorusPrecision(sh.k_res),
                            base2k: Base2K(sh.b_res),
                        };
                        let mut s_lwe: LWESecret<Vec<u8>> = LWESecret::alloc(Degree(n_lwe));
                        s_lwe.fill_binary_prob(0.5, &mut src(sh.seed, 1));
                        // the plaintext may have fewer (or more) limbs than the ciphertext
                        // (decryption normalises into the plaintext's own radix: another radix is admissible there)
                        let mut pt: LWEPlaintext<Vec<u8>> = if sh.extra & 1 == 1 {
                            LWEPlaintext::alloc(Base2K(if op == "lwe_decrypt" { sh.b_in } else { sh.b_res }), TorusPrecision(sh.k_in.max(1)))
                        } else {
                            LWEPlaintext::alloc_from_infos(&infos)
                        };
                        let mut ct: LWE<Vec<u8>> = LWE::alloc_from_infos(&infos);
                        if op == "lwe_encrypt_sk" {
                            pt.data_mut().fill_uniform(sh.b_res as usize, &mut src(sh.seed, 2));
                            let enc = EncryptionLayout::new_from_default_sigma(infos).unwrap();
                            let declared = m.lwe_encrypt_sk_tmp_bytes(&infos);
                            let r = windowed(declared, w, &mut |s| {
                                m.lwe_encrypt_sk(&mut ct, &pt, &s_lwe, &enc, &mut src(sh.seed, 3), &mut src(sh.seed, 4), s)
                            });
                            finish(r, declared, vec![ser(&ct)])
                        } else {
                            ct.fill_uniform(sh.b_res as usize, &mut src(sh.seed, 2));
                            let declared = m.lwe_decrypt_tmp_bytes(&infos);
                            let r = windowed(declared, w, &mut |s| m.lwe_decrypt(&ct, &mut pt, &s_lwe, s));
                            finish(r, declared, vec![pt.data().data.clone()])
                        }
                    }
                    "gglwe_encrypt_sk" => {
                        let infos = GGLWELayout {
                            n: Degree(sh.n),
                            base2k: Base2K(sh.b_key),
                            k: TorusPrecision(sh.k_key),
                            rank_in: Rank(sh.rank_in),
                            rank_out: Rank(sh.rank_out),
                            dnum: Dnum(sh.dnum()),
                            dsize: Dsize(sh.dsize),
                        };
                        let enc = EncryptionLayout::new_from_default_sigma(infos).unwrap();
                        let (_s, sp) = skp(c, sh.rank_out, sh.seed);
                        let mut pt: poulpy_hal::layouts::ScalarZnx<Vec<u8>> =
                            poulpy_hal::layouts::ScalarZnx::alloc(sh.n as usize, sh.rank_in as usize);
                        pt.fill_uniform(3, &mut src(sh.seed, 2));
                        let mut ct: GGLWE<Vec<u8>> = GGLWE::alloc_from_infos(&infos);
                        let declared = m.gglwe_encrypt_sk_tmp_bytes(&infos);
                        let r = windowed(declared, w, &mut |s| {
                            m.gglwe_encrypt_sk(&mut ct, &pt, &sp, &enc, &mut src(sh.seed, 3), &mut src(sh.seed, 4), s)
                        });
                        finish(r, declared, vec![ser(&ct)])
                    }
                    "glwe_automorphism_key_encrypt_sk" | "glwe_automorphism_key_prepare" => {
                        let rank = sh.rank_out;
                        let infos = atk_layout(sh, rank);
                        let p: i64 = draw::galois(sh.seed >> 44, sh.n);
                        if op == "glwe_automorphism_key_encrypt_sk" {
                            let mut atk: GLWEAutomorphismKey<Vec<u8>> = GLWEAutomorphismKey::alloc_from_infos(&infos);
                            let enc = EncryptionLayout::new_from_default_sigma(infos).unwrap();
                            let (s0, _) = skp(c, rank, sh.seed);
                            let declared = m.glwe_automorphism_key_encrypt_sk_tmp_bytes(&infos);
                            let r = windowed(declared, w, &mut |s| {
                                m.glwe_automorphism_key_encrypt_sk(&mut atk, p, &s0, &enc, &mut src(sh.seed, 3), &mut src(sh.seed, 4), s)
                            });
                            finish(r, declared, vec![ser(&atk)])
                        } else {
                            let atk = atk_real(c, sh, rank, p, &mut big);
                            let mut ap = m.glwe_automorphism_key_prepared_alloc_from_infos(&atk);
                            let declared = m.glwe_automorphism_key_prepare_tmp_bytes(&atk);
                            let r = windowed(declared, w, &mut |s| m.glwe_automorphism_key_prepare(&mut ap, &atk, s));
                            let in_infos = gl(sh.n, sh.b_in, sh.k_in, rank);
                            let mut a: GLWE<Vec<u8>> = GLWE::alloc_from_infos(&in_infos);
                            a.fill_uniform(sh.b_in as usize, &mut src(sh.seed, 6));
                            let mut res: GLWE<Vec<u8>> = GLWE::alloc_from_infos(&gl(sh.n, sh.b_res, sh.k_res, rank));
                            if r.0.is_ok() {
                                m.glwe_automorphism(&mut res, &a, &ap, big.borrow());
                            }
                            finish(r, declared, vec![res.data().data.clone()])
                        }
                    }
                    "gglwe_prepare" => {
                        let infos = GGLWELayout {
                            n: Degree(sh.n),
                            base2k: Base2K(sh.b_key),
                            k: TorusPrecision(sh.k_key),
                            rank_in: Rank(sh.rank_in),
                            rank_out: Rank(sh.rank_out),
                            dnum: Dnum(sh.dnum()),
                            dsize: Dsize(sh.dsize),
                        };
                        let mut key: GGLWE<Vec<u8>> = GGLWE::alloc_from_infos(&infos);
                        key.fill_uniform(sh.b_key as usize, &mut src(sh.seed, 2));
                        let mut kp = m.gglwe_prepared_alloc_from_infos(&infos);
                        let declared = m.gglwe_prepare_tmp_bytes(&infos);
                        let r = windowed(declared, w, &mut |s| m.gglwe_prepare(&mut kp, &key, s));
                        // observe through a key switch with generous scratch
                        let mut a: GLWE<Vec<u8>> = GLWE::alloc_from_infos(&gl(sh.n, sh.b_in, sh.k_in, sh.rank_in));
                        a.fill_uniform(sh.b_in as usize, &mut src(sh.seed, 6));
                        let mut res: GLWE<Vec<u8>> = GLWE::alloc_from_infos(&gl(sh.n, sh.b_res, sh.k_res, sh.rank_out));
                        if r.0.is_ok() {
                            use poulpy_core::GLWEKeyswitch;
                            m.glwe_keyswitch(&mut res, &a, &kp, big.borrow());
                        }
                        finish(r, declared, vec![res.data().data.clone()])
                    }
                    _ => return core_op3_c(op, sh, w),
                };
                Some(r)
            }

            /// Automorphism keys (prepared) for a list of Galois elements, encrypted for real.
            fn auto_keys(
                c: &Ctx,
                sh: &Shape,
                rank: u32,
                gal_els: &[i64],
                big: &mut ScratchOwned<BE>,
            ) -> std::collections::HashMap<i64, poulpy_core::layouts::GLWEAutomorphismKeyPrepared<DeviceBuf<BE>, BE>> {
                let mut keys = std::collections::HashMap::new();
                for p in gal_els {
                    let atk = atk_real(c, sh, rank, *p, big);
                    let mut ap = c.module.glwe_automorphism_key_prepared_alloc_from_infos(&atk);
                    c.module.glwe_automorphism_key_prepare(&mut ap, &atk, big.borrow());
                    keys.insert(*p, ap);
                }
                keys
            }

            /// Ciphertext arithmetic: trace, packing, products, tensoring, shifts, rotations, noise.
            fn core_op3_c(op: &str, sh: &Shape, w: &Window) -> Option<RunResult> {
                use poulpy_core::layouts::{GLWETensor, GLWETensorKey, GLWETensorKeyLayout, GLWETensorKeyPreparedFactory, LWEInfos};
                use poulpy_core::{
                    GGLWENoise, GGSWNoise, GGSWRotate, GLWEMulConst, GLWEMulPlain, GLWEMulXpMinusOne, GLWENoise, GLWENormalize,
                    GLWEPacking, GLWERotate, GLWEShift, GLWETensorKeyEncryptSk, GLWETensoring, GLWETrace,
                };
                use poulpy_hal::api::VecZnxMulXpMinusOneAssignTmpBytes;
                let c = ctx(sh.n, 1);
                let m = &c.module;
                let mut big: ScratchOwned<BE> = ScratchOwned::alloc(1 << 22);
                let rank = sh.rank_out;
                let in_infos = gl(sh.n, sh.b_in, sh.k_in, rank);
                let out_infos = gl(sh.n, sh.b_res, sh.k_res, rank);
                let r = match op {
                    "glwe_trace" | "glwe_trace_assign" => {
                        let atk_infos = atk_layout(sh, rank);
                        let keys = auto_keys(c, sh, rank, &m.glwe_trace_galois_elements(), &mut big);
                        let log_n = sh.n.trailing_zeros() as usize;
                        let skip = sh.extra as usize % (log_n + 1);
                        let mut a: GLWE<Vec<u8>> = GLWE::alloc_from_infos(&in_infos);
                        a.fill_uniform(sh.b_in as usize, &mut src(sh.seed, 6));
                        if op == "glwe_trace" {
                            let mut res: GLWE<Vec<u8>> = GLWE::alloc_from_infos(&out_infos);
                            let declared = m.glwe_trace_tmp_bytes(&out_infos, &in_infos, &atk_infos);
                            let r = windowed(declared, w, &mut |s| m.glwe_trace(&mut res, skip, &a, &keys, s));
                            finish(r, declared, vec![res.data().data.clone()])
                        } else {
                            let declared = m.glwe_trace_tmp_bytes(&in_infos, &in_infos, &atk_infos);
                            let r = windowed(declared, w, &mut |s| m.glwe_trace_assign(&mut a, skip, &keys, s));
                            finish(r, declared, vec![a.data().data.clone()])
                        }
                    }
                    "glwe_pack" => {
                        let atk_infos = atk_layout(sh, rank);
                        let keys = auto_keys(c, sh, rank, &m.glwe_pack_galois_elements(), &mut big);
                        let log_n = sh.n.trailing_zeros() as usize;
                        // output gap: any of 0..=log_n (log_n: no merge level at all, only the trace)
                        let log_gap_out = draw::index(sh.seed >> 20, log_n + 1);
                        // occupied slots (the entry assert wants them below N; slot 0 is the one the result is read
                        // from): every slot, every step-th slot, a random subset, slot 0 alone, slot 0 and the last
                        let step = 1 + (sh.extra as usize % 3);
                        let slots: Vec<usize> = (0..sh.n as usize)
                            .filter(|j| {
                                *j == 0
                                    || match (sh.seed >> 24) % 5 {
                                        0 | 1 => j % step == 0,
                                        2 => (sh.seed.rotate_left(*j as u32 % 64) ^ (*j as u64).wrapping_mul(0x9E37_79B9)) & 1 == 1,
                                        3 => false,
                                        _ => *j == sh.n as usize - 1,
                                    }
                            })
                            .collect();
                        // flags bit 0 (subject `glwe_pack+srclayout`): the ciphertexts to pack have their own layout (radix
                        // b_in, k_in) instead of the result's - as the library's own caller has it (the repacking step of
                        // `circuit_bootstrapping_execute_to_exponent` packs key-radix ciphertexts into a result-radix row);
                        // the query only takes the result's layout
                        let (ct_infos, ct_b) = if sh.flags & 1 == 1 { (in_infos, sh.b_in) } else { (out_infos, sh.b_res) };
                        let mut cts: Vec<GLWE<Vec<u8>>> = slots
                            .iter()
                            .map(|i| {
                                let mut ct: GLWE<Vec<u8>> = GLWE::alloc_from_infos(&ct_infos);
                                ct.fill_uniform(ct_b as usize, &mut src(sh.seed ^ *i as u64, 6));
                                ct
                            })
                            .collect();
                        let mut res: GLWE<Vec<u8>> = GLWE::alloc_from_infos(&out_infos);
                        let declared = m.glwe_pack_tmp_bytes(&out_infos, &atk_infos);
                        let r = windowed(declared, w, &mut |s| {
                            let mut map: std::collections::HashMap<usize, &mut GLWE<Vec<u8>>> = std::collections::HashMap::new();
                            for (i, ct) in slots.iter().zip(cts.iter_mut()) {
                                map.insert(*i, ct);
                            }
                            m.glwe_pack(&mut res, map, log_gap_out, &keys, s)
                        });
                        finish(r, declared, vec![res.data().data.clone()])
                    }
                    "glwe_mul_const" | "glwe_mul_const_assign" => {
                        let b_size = 1 + (sh.extra as usize % 3);
                        let mut b: Vec<i64> = vec![0i64; b_size];
                        {
                            let mut sx = src(sh.seed, 5);
                            for x in b.iter_mut() {
                                *x = ((sx.next_i64() as u64) % (1u64 << sh.b_in)) as i64 - (1i64 << (sh.b_in - 1));
                            }
                        }
                        // offset in bits: zero, below one limb, whole limbs, up to the whole product and beyond
                        let cnv_offset = draw::bits(sh.seed >> 24, sh.b_in as usize, in_infos.size() + b_size);
                        let mut a: GLWE<Vec<u8>> = GLWE::alloc_from_infos(&in_infos);
                        a.fill_uniform(sh.b_in as usize, &mut src(sh.seed, 6));
                        if op == "glwe_mul_const" {
                            let mut res: GLWE<Vec<u8>> = GLWE::alloc_from_infos(&out_infos);
                            let declared = m.glwe_mul_const_tmp_bytes(&out_infos, &in_infos, b_size);
                            let r = windowed(declared, w, &mut |s| m.glwe_mul_const(cnv_offset, &mut res, &a, &b, s));
                            finish(r, declared, vec![res.data().data.clone()])
                        } else {
                            let declared = m.glwe_mul_const_tmp_bytes(&in_infos, &in_infos, b_size);
                            let r = windowed(declared, w, &mut |s| m.glwe_mul_const_assign(cnv_offset, &mut a, &b, s));
                            finish(r, declared, vec![a.data().data.clone()])
                        }
                    }
                    "glwe_mul_plain" | "glwe_mul_plain_assign" => {
                        // plaintext: one to three limbs, the last one filled anywhere from one bit to completely
                        let k_b = sh.b_in * (sh.extra % 3) + 1 + (sh.seed >> 28) as u32 % sh.b_in;
                        let pt_infos = gl(sh.n, sh.b_in, k_b, 0);
                        let mut pt: GLWEPlaintext<Vec<u8>> = GLWEPlaintext::alloc_from_infos(&pt_infos);
                        pt.data_mut().fill_uniform(sh.b_in as usize, &mut src(sh.seed, 5));
                        let cnv_offset = draw::bits(sh.seed >> 24, sh.b_in as usize, in_infos.size() + pt_infos.size());
                        // effective precision of the ciphertext: the contract is `ceil(k / base2k) == size`, i.e. anywhere
                        // in the last limb (it selects the mask of the bottom limb)
                        let a_eff = (sh.b_in * (in_infos.size() as u32 - 1) + 1 + (sh.seed >> 34) as u32 % sh.b_in) as usize;
                        let mut a: GLWE<Vec<u8>> = GLWE::alloc_from_infos(&in_infos);
                        a.fill_uniform(sh.b_in as usize, &mut src(sh.seed, 6));
                        if op == "glwe_mul_plain" {
                            let mut res: GLWE<Vec<u8>> = GLWE::alloc_from_infos(&out_infos);
                            let declared = m.glwe_mul_plain_tmp_bytes(&out_infos, &in_infos, &pt_infos);
                            let r = windowed(declared, w, &mut |s| {
                                m.glwe_mul_plain(cnv_offset, &mut res, &a, a_eff, &pt, k_b as usize, s)
                            });
                            finish(r, declared, vec![res.data().data.clone()])
                        } else {
                            let declared = m.glwe_mul_plain_tmp_bytes(&in_infos, &in_infos, &pt_infos);
                            let r = windowed(declared, w, &mut |s| {
                                m.glwe_mul_plain_assign(cnv_offset, &mut a, a_eff, &pt, k_b as usize, s)
                            });
                            finish(r, declared, vec![a.data().data.clone()])
                        }
                    }
                    "glwe_tensor_apply" | "glwe_tensor_apply_add_assign" | "glwe_tensor_square_apply" => {
                        let size_b = 1 + sh.extra % 3;
                        // second operand: the last limb filled anywhere from one bit to completely
                        let k_b = sh.b_in * (size_b - 1) + 1 + (sh.seed >> 28) as u32 % sh.b_in;
                        let b_infos = gl(sh.n, sh.b_in, k_b, rank);
                        let cnv_offset = draw::bits(sh.seed >> 24, sh.b_in as usize, in_infos.size() + size_b as usize);
                        // effective precision of the first operand: anywhere in its last limb (`ceil(k / base2k) == size`)
                        let a_eff = (sh.b_in * (in_infos.size() as u32 - 1) + 1 + (sh.seed >> 34) as u32 % sh.b_in) as usize;
                        let mut a: GLWE<Vec<u8>> = GLWE::alloc_from_infos(&in_infos);
                        a.fill_uniform(sh.b_in as usize, &mut src(sh.seed, 6));
                        let mut b: GLWE<Vec<u8>> = GLWE::alloc_from_infos(&b_infos);
                        b.fill_uniform(sh.b_in as usize, &mut src(sh.seed, 7));
                        let mut res: GLWETensor<Vec<u8>> = GLWETensor::alloc_from_infos(&out_infos);
                        match op {
                            "glwe_tensor_apply" => {
                                let declared = m.glwe_tensor_apply_tmp_bytes(&res, &in_infos, &b_infos);
                                let r = windowed(declared, w, &mut |s| {
                                    m.glwe_tensor_apply(cnv_offset, &mut res, &a, a_eff, &b, k_b as usize, s)
                                });
                                finish(r, declared, vec![res.data().data.clone()])
                            }
                            "glwe_tensor_apply_add_assign" => {
                                res.fill_uniform(sh.b_res as usize, &mut src(sh.seed, 8));
                                let declared = m.glwe_tensor_apply_tmp_bytes(&res, &in_infos, &b_infos);
                                let r = windowed(declared, w, &mut |s| {
                                    m.glwe_tensor_apply_add_assign(cnv_offset, &mut res, &a, a_eff, &b, k_b as usize, s)
                                });
                                finish(r, declared, vec![res.data().data.clone()])
                            }
                            _ => {
                                let declared = m.glwe_tensor_square_apply_tmp_bytes(&res, &in_infos);
                                let r = windowed(declared, w, &mut |s| {
                                    m.glwe_tensor_square_apply(cnv_offset, &mut res, &a, a_eff, s)
                                });
                                finish(r, declared, vec![res.data().data.clone()])
                            }
                        }
                    }
                    "glwe_tensor_relinearize" | "glwe_tensor_key_prepare" | "glwe_tensor_key_encrypt_sk" => {
                        let tsk_infos = GLWETensorKeyLayout {
                            n: Degree(sh.n),
                            base2k: Base2K(sh.b_key),
                            k: TorusPrecision(sh.k_key),
                            rank: Rank(rank),
                            dnum: Dnum(sh.dnum()),
                            dsize: Dsize(sh.dsize),
                        };
                        let mut tsk: GLWETensorKey<Vec<u8>> = GLWETensorKey::alloc_from_infos(&tsk_infos);
                        if op == "glwe_tensor_key_encrypt_sk" {
                            let enc = EncryptionLayout::new_from_default_sigma(tsk_infos).unwrap();
                            let (s0, _) = skp(c, rank, sh.seed);
                            let declared = m.glwe_tensor_key_encrypt_sk_tmp_bytes(&tsk_infos);
                            let r = windowed(declared, w, &mut |s| {
                                m.glwe_tensor_key_encrypt_sk(&mut tsk, &s0, &enc, &mut src(sh.seed, 3), &mut src(sh.seed, 4), s)
                            });
                            return Some(finish(r, declared, vec![ser(&tsk)]));
                        }
                        tsk.fill_uniform(sh.b_key as usize, &mut src(sh.seed, 2));
                        let mut tp = m.alloc_tensor_key_prepared_from_infos(&tsk_infos);
                        let mut a: GLWETensor<Vec<u8>> = GLWETensor::alloc_from_infos(&in_infos);
                        a.fill_uniform(sh.b_in as usize, &mut src(sh.seed, 6));
                        let mut res: GLWE<Vec<u8>> = GLWE::alloc_from_infos(&out_infos);
                        if op == "glwe_tensor_key_prepare" {
                            let declared = m.prepare_tensor_key_tmp_bytes(&tsk_infos);
                            let r = windowed(declared, w, &mut |s| m.prepare_tensor_key(&mut tp, &tsk, s));
                            if r.0.is_ok() {
                                let sz = tp.size();
                                m.glwe_tensor_relinearize(&mut res, &a, &tp, sz, big.borrow());
                            }
                            return Some(finish(r, declared, vec![res.data().data.clone()]));
                        }
                        m.prepare_tensor_key(&mut tp, &tsk, big.borrow());
                        // limbs of the product accumulator: the op carves `tsk_size` limbs where the query (which has
                        // no such parameter) budgets `tsk.size()`: the contract is 1..=tsk.size() (first, last, middle).
                        // With dsize > 1 the gadget product resizes the accumulator to the key's limb count
                        // (`res.set_size(pmat.size() - ..)` asserts `size <= max_size`): only tsk.size() is accepted there.
                        let sz = if sh.dsize == 1 { 1 + draw::index(sh.seed >> 20, tp.size()) } else { tp.size() };
                        let declared = m.glwe_tensor_relinearize_tmp_bytes(&out_infos, &a, &tsk_infos);
                        let r = windowed(declared, w, &mut |s| m.glwe_tensor_relinearize(&mut res, &a, &tp, sz, s));
                        finish(r, declared, vec![res.data().data.clone()])
                    }
                    "glwe_rotate_assign" | "glwe_mul_xp_minus_one_assign" | "glwe_normalize_assign" | "glwe_rsh" | "glwe_lsh_assign" => {
                        let mut a: GLWE<Vec<u8>> = GLWE::alloc_from_infos(&in_infos);
                        a.fill_uniform(sh.b_in as usize, &mut src(sh.seed, 6));
                        let p = draw::rotation(sh.seed >> 40, sh.n);
                        let kbits = draw::bits(sh.seed >> 8, sh.b_in as usize, in_infos.size());
                        let (r, declared) = match op {
                            "glwe_rotate_assign" => {
                                let d = m.glwe_rotate_tmp_bytes();
                                (windowed(d, w, &mut |s| m.glwe_rotate_assign(p, &mut a, s)), d)
                            }
                            "glwe_mul_xp_minus_one_assign" => {
                                let d = m.vec_znx_mul_xp_minus_one_assign_tmp_bytes();
                                (windowed(d, w, &mut |s| m.glwe_mul_xp_minus_one_assign(p, &mut a, s)), d)
                            }
                            "glwe_normalize_assign" => {
                                // un-normalised limbs: full 64-bit range would overflow the carry; use 2 extra bits
                                let d = m.glwe_normalize_tmp_bytes();
                                (windowed(d, w, &mut |s| m.glwe_normalize_assign(&mut a, s)), d)
                            }
                            "glwe_rsh" => {
                                let d = m.glwe_shift_tmp_bytes();
                                (windowed(d, w, &mut |s| m.glwe_rsh(kbits, &mut a, s)), d)
                            }
                            _ => {
                                let d = m.glwe_shift_tmp_bytes();
                                (windowed(d, w, &mut |s| m.glwe_lsh_assign(&mut a, kbits, s)), d)
                            }
                        };
                        finish(r, declared, vec![a.data().data.clone()])
                    }
                    "glwe_lsh" | "glwe_lsh_add" | "glwe_lsh_sub" => {
                        // same radix on both sides
                        let res_infos = gl(sh.n, sh.b_in, sh.k_res, rank);
                        let mut a: GLWE<Vec<u8>> = GLWE::alloc_from_infos(&in_infos);
                        a.fill_uniform(sh.b_in as usize, &mut src(sh.seed, 6));
                        let mut res: GLWE<Vec<u8>> = GLWE::alloc_from_infos(&res_infos);
                        res.fill_uniform(sh.b_in as usize, &mut src(sh.seed, 7));
                        // (the amount may exceed the precision of either side: everything is shifted out)
                        let kbits = draw::bits(sh.seed >> 8, sh.b_in as usize, if sh.seed & 1 == 0 { in_infos.size() } else { res_infos.size() });
                        let declared = m.glwe_shift_tmp_bytes();
                        let r = match op {
                            "glwe_lsh" => windowed(declared, w, &mut |s| m.glwe_lsh(&mut res, &a, kbits, s)),
                            "glwe_lsh_add" => windowed(declared, w, &mut |s| m.glwe_lsh_add(&mut res, &a, kbits, s)),
                            _ => windowed(declared, w, &mut |s| m.glwe_lsh_sub(&mut res, &a, kbits, s)),
                        };
                        finish(r, declared, vec![res.data().data.clone()])
                    }
                    "ggsw_rotate_assign" => {
                        let (k_a, _size_a, dnum_a) = gadget_ct(sh.b_in, sh.k_in, sh.extra, 1);
                        let a_infos = GGSWLayout {
                            n: Degree(sh.n),
                            base2k: Base2K(sh.b_in),
                            k: TorusPrecision(k_a),
                            rank: Rank(rank),
                            dnum: Dnum(dnum_a),
                            dsize: Dsize(1),
                        };
                        let mut a: GGSW<Vec<u8>> = GGSW::alloc_from_infos(&a_infos);
                        a.fill_uniform(sh.b_in as usize, &mut src(sh.seed, 6));
                        let p = draw::rotation(sh.seed >> 40, sh.n);
                        let declared = m.ggsw_rotate_tmp_bytes();
                        let r = windowed(declared, w, &mut |s| m.ggsw_rotate_assign(p, &mut a, s));
                        finish(r, declared, vec![ser(&a)])
                    }
                    "glwe_noise" => {
                        let (_s, sp) = skp(c, rank, sh.seed);
                        let mut ct: GLWE<Vec<u8>> = GLWE::alloc_from_infos(&out_infos);
                        ct.fill_uniform(sh.b_res as usize, &mut src(sh.seed, 6));
                        let mut pt: GLWEPlaintext<Vec<u8>> = GLWEPlaintext::alloc_from_infos(&out_infos);
                        pt.data_mut().fill_uniform(sh.b_res as usize, &mut src(sh.seed, 5));
                        let declared = m.glwe_noise_tmp_bytes(&out_infos);
                        let mut out = Vec::new();
                        let r = windowed(declared, w, &mut |s| {
                            let st = m.glwe_noise(&ct, &pt, &sp, s);
                            out = [st.std().to_le_bytes(), st.max().to_le_bytes()].concat();
                        });
                        finish(r, declared, vec![out])
                    }
                    "gglwe_noise" | "ggsw_noise" => {
                        let (_s, sp) = skp(c, rank, sh.seed);
                        let mut pt: poulpy_hal::layouts::ScalarZnx<Vec<u8>> =
                            poulpy_hal::layouts::ScalarZnx::alloc(sh.n as usize, sh.rank_in as usize);
                        pt.fill_uniform(3, &mut src(sh.seed, 2));
                        let mut out = Vec::new();
                        if op == "gglwe_noise" {
                            let infos = GGLWELayout {
                                n: Degree(sh.n),
                                base2k: Base2K(sh.b_key),
                                k: TorusPrecision(sh.k_key),
                                rank_in: Rank(sh.rank_in),
                                rank_out: Rank(rank),
                                dnum: Dnum(sh.dnum()),
                                dsize: Dsize(sh.dsize),
                            };
                            let mut ct: GGLWE<Vec<u8>> = GGLWE::alloc_from_infos(&infos);
                            ct.fill_uniform(sh.b_key as usize, &mut src(sh.seed, 6));
                            let row = draw::index(sh.seed >> 12, sh.dnum() as usize);
                            let col = draw::index(sh.seed >> 16, sh.rank_in as usize);
                            let declared = m.gglwe_noise_tmp_bytes(&infos);
                            let r = windowed(declared, w, &mut |s| {
                                let st = m.gglwe_noise(&ct, row, col, &pt, &sp, s);
                                out = [st.std().to_le_bytes(), st.max().to_le_bytes()].concat();
                            });
                            finish(r, declared, vec![out])
                        } else {
                            let infos = ggsw_key_layout(sh, rank);
                            let mut ct: GGSW<Vec<u8>> = GGSW::alloc_from_infos(&infos);
                            ct.fill_uniform(sh.b_key as usize, &mut src(sh.seed, 6));
                            let row = draw::index(sh.seed >> 12, sh.dnum() as usize);
                            let col = draw::index(sh.seed >> 16, rank as usize + 1);
                            let declared = m.ggsw_noise_tmp_bytes(&infos);
                            let r = windowed(declared, w, &mut |s| {
                                let st = m.ggsw_noise(&ct, row, col, &pt, &sp, s);
                                out = [st.std().to_le_bytes(), st.max().to_le_bytes()].concat();
                            });
                            finish(r, declared, vec![out])
                        }
                    }
                    _ => return core_op3_d(op, sh, w),
                };
                Some(r)
            }

            /// Seed-compressed encryption, public-key encryption, tensor secrets.
            fn core_op3_d(op: &str, sh: &Shape, w: &Window) -> Option<RunResult> {
                use poulpy_core::api::{
                    GGLWECompressedEncryptSk, GGLWEToGGSWKeyCompressedEncryptSk, GGSWCompressedEncryptSk, GLWEAutomorphismKeyCompressedEncryptSk,
                    GLWECompressedEncryptSk, GLWEEncryptPk, GLWEEncryptSk, GLWEPublicKeyGenerate, GLWESwitchingKeyCompressedEncryptSk,
                    GLWETensorDecrypt, GLWETensorKeyCompressedEncryptSk,
                };
                use poulpy_core::layouts::{
                    GGLWECompressed, GGLWEToGGSWKeyCompressed, GGSWCompressed, GLWEAutomorphismKeyCompressed, GLWECompressed, GLWEPublicKey,
                    GLWEPublicKeyPreparedFactory, GLWESecretTensor, GLWESecretTensorFactory, GLWESecretTensorPreparedFactory,
                    GLWESwitchingKeyCompressed, GLWETensor, GLWETensorKeyCompressed, GLWETensorKeyLayout,
                };
                let c = ctx(sh.n, 1);
                let m = &c.module;
                let rank = sh.rank_out;
                let out_infos = gl(sh.n, sh.b_res, sh.k_res, rank);
                let mut seed_xa = [7u8; 32];
                seed_xa[..8].copy_from_slice(&sh.seed.to_le_bytes());
                let r = match op {
                    "glwe_compressed_encrypt_sk" => {
                        let enc = EncryptionLayout::new_from_default_sigma(out_infos).unwrap();
                        let (_s, sp) = skp(c, rank, sh.seed);
                        // the plaintext has the ciphertext's radix and its own precision
                        let pt_infos = if sh.extra & 1 == 1 { gl(sh.n, sh.b_res, sh.k_in, rank) } else { out_infos };
                        let mut pt: GLWEPlaintext<Vec<u8>> = GLWEPlaintext::alloc_from_infos(&pt_infos);
                        pt.data_mut().fill_uniform(sh.b_res as usize, &mut src(sh.seed, 2));
                        let mut ct: GLWECompressed<Vec<u8>> = GLWECompressed::alloc_from_infos(&out_infos);
                        let declared = m.glwe_compressed_encrypt_sk_tmp_bytes(&out_infos);
                        let r = windowed(declared, w, &mut |s| {
                            m.glwe_compressed_encrypt_sk(&mut ct, &pt, &sp, seed_xa, &enc, &mut src(sh.seed, 3), s)
                        });
                        finish(r, declared, vec![ser(&ct)])
                    }
                    "gglwe_compressed_encrypt_sk" => {
                        let infos = GGLWELayout {
                            n: Degree(sh.n),
                            base2k: Base2K(sh.b_key),
                            k: TorusPrecision(sh.k_key),
                            rank_in: Rank(sh.rank_in),
                            rank_out: Rank(rank),
                            dnum: Dnum(sh.dnum()),
                            dsize: Dsize(sh.dsize),
                        };
                        let enc = EncryptionLayout::new_from_default_sigma(infos).unwrap();
                        let (_s, sp) = skp(c, rank, sh.seed);
                        let mut pt: poulpy_hal::layouts::ScalarZnx<Vec<u8>> =
                            poulpy_hal::layouts::ScalarZnx::alloc(sh.n as usize, sh.rank_in as usize);
                        pt.fill_uniform(3, &mut src(sh.seed, 2));
                        let mut ct: GGLWECompressed<Vec<u8>> = GGLWECompressed::alloc_from_infos(&infos);
                        let declared = m.gglwe_compressed_encrypt_sk_tmp_bytes(&infos);
                        let r = windowed(declared, w, &mut |s| {
                            m.gglwe_compressed_encrypt_sk(&mut ct, &pt, &sp, seed_xa, &enc, &mut src(sh.seed, 3), s)
                        });
                        finish(r, declared, vec![ser(&ct)])
                    }
                    "ggsw_compressed_encrypt_sk" => {
                        let infos = ggsw_key_layout(sh, rank);
                        let enc = EncryptionLayout::new_from_default_sigma(infos).unwrap();
                        let (_s, sp) = skp(c, rank, sh.seed);
                        let mut pt: poulpy_hal::layouts::ScalarZnx<Vec<u8>> = poulpy_hal::layouts::ScalarZnx::alloc(sh.n as usize, 1);
                        pt.fill_uniform(3, &mut src(sh.seed, 2));
                        let mut ct: GGSWCompressed<Vec<u8>> = GGSWCompressed::alloc_from_infos(&infos);
                        let declared = m.ggsw_compressed_encrypt_sk_tmp_bytes(&infos);
                        let r = windowed(declared, w, &mut |s| {
                            m.ggsw_compressed_encrypt_sk(&mut ct, &pt, &sp, seed_xa, &enc, &mut src(sh.seed, 3), s)
                        });
                        finish(r, declared, vec![ser(&ct)])
                    }
                    "glwe_switching_key_compressed_encrypt_sk" => {
                        let infos = ksk_layout(sh, sh.rank_in, rank);
                        let enc = EncryptionLayout::new_from_default_sigma(infos).unwrap();
                        let (s_in, _) = skp(c, sh.rank_in, sh.seed);
                        let (s_out, _) = skp(c, rank, sh.seed ^ 5);
                        let mut key: GLWESwitchingKeyCompressed<Vec<u8>> = GLWESwitchingKeyCompressed::alloc_from_infos(&infos);
                        let declared = m.glwe_switching_key_compressed_encrypt_sk_tmp_bytes(&infos);
                        let r = windowed(declared, w, &mut |s| {
                            m.glwe_switching_key_compressed_encrypt_sk(&mut key, &s_in, &s_out, seed_xa, &enc, &mut src(sh.seed, 3), s)
                        });
                        finish(r, declared, vec![ser(&key)])
                    }
                    "glwe_automorphism_key_compressed_encrypt_sk" => {
                        let infos = atk_layout(sh, rank);
                        let enc = EncryptionLayout::new_from_default_sigma(infos).unwrap();
                        let (s0, _) = skp(c, rank, sh.seed);
                        let p: i64 = draw::galois(sh.seed >> 44, sh.n);
                        let mut key: GLWEAutomorphismKeyCompressed<Vec<u8>> = GLWEAutomorphismKeyCompressed::alloc_from_infos(&infos);
                        let declared = m.glwe_automorphism_key_compressed_encrypt_sk_tmp_bytes(&infos);
                        let r = windowed(declared, w, &mut |s| {
                            m.glwe_automorphism_key_compressed_encrypt_sk(&mut key, p, &s0, seed_xa, &enc, &mut src(sh.seed, 3), s)
                        });
                        finish(r, declared, vec![ser(&key)])
                    }
                    "glwe_tensor_key_compressed_encrypt_sk" => {
                        let infos = GLWETensorKeyLayout {
                            n: Degree(sh.n),
                            base2k: Base2K(sh.b_key),
                            k: TorusPrecision(sh.k_key),
                            rank: Rank(rank),
                            dnum: Dnum(sh.dnum()),
                            dsize: Dsize(sh.dsize),
                        };
                        let enc = EncryptionLayout::new_from_default_sigma(infos).unwrap();
                        let (s0, _) = skp(c, rank, sh.seed);
                        let mut key: GLWETensorKeyCompressed<Vec<u8>> = GLWETensorKeyCompressed::alloc_from_infos(&infos);
                        let declared = m.glwe_tensor_key_compressed_encrypt_sk_tmp_bytes(&infos);
                        let r = windowed(declared, w, &mut |s| {
                            m.glwe_tensor_key_compressed_encrypt_sk(&mut key, &s0, seed_xa, &enc, &mut src(sh.seed, 3), s)
                        });
                        finish(r, declared, vec![ser(&key)])
                    }
                    "gglwe_to_ggsw_key_compressed_encrypt_sk" => {
                        let infos = tsk_layout(sh, rank);
                        let enc = EncryptionLayout::new_from_default_sigma(infos).unwrap();
                        let (s0, _) = skp(c, rank, sh.seed);
                        let mut key: GGLWEToGGSWKeyCompressed<Vec<u8>> = GGLWEToGGSWKeyCompressed::alloc_from_infos(&infos);
                        let declared = GGLWEToGGSWKeyCompressedEncryptSk::gglwe_to_ggsw_key_encrypt_sk_tmp_bytes(m, &infos);
                        let r = windowed(declared, w, &mut |s| {
                            GGLWEToGGSWKeyCompressedEncryptSk::gglwe_to_ggsw_key_encrypt_sk(
                                m,
                                &mut key,
                                &s0,
                                seed_xa,
                                &enc,
                                &mut src(sh.seed, 3),
                                s,
                            )
                        });
                        finish(r, declared, vec![ser(&key)])
                    }
                    "glwe_encrypt_pk" | "glwe_encrypt_zero_pk" | "glwe_encrypt_zero_sk" => {
                        let enc = EncryptionLayout::new_from_default_sigma(out_infos).unwrap();
                        let (_s, sp) = skp(c, rank, sh.seed);
                        let mut ct: GLWE<Vec<u8>> = GLWE::alloc_from_infos(&out_infos);
                        if op == "glwe_encrypt_zero_sk" {
                            let declared = m.glwe_encrypt_sk_tmp_bytes(&out_infos);
                            let r = windowed(declared, w, &mut |s| {
                                m.glwe_encrypt_zero_sk(&mut ct, &sp, &enc, &mut src(sh.seed, 3), &mut src(sh.seed, 4), s)
                            });
                            return Some(finish(r, declared, vec![ct.data().data.clone()]));
                        }
                        let mut pk: GLWEPublicKey<Vec<u8>> = GLWEPublicKey::alloc_from_infos(&out_infos);
                        m.glwe_public_key_generate(&mut pk, &sp, &enc, &mut src(sh.seed, 8), &mut src(sh.seed, 9));
                        let mut pkp = m.glwe_public_key_prepared_alloc_from_infos(&out_infos);
                        m.glwe_public_key_prepare(&mut pkp, &pk);
                        // the plaintext has the key's radix (entry assert) and its own precision
                        let pt_infos = if sh.extra & 1 == 1 { gl(sh.n, sh.b_res, sh.k_in, rank) } else { out_infos };
                        let mut pt: GLWEPlaintext<Vec<u8>> = GLWEPlaintext::alloc_from_infos(&pt_infos);
                        pt.data_mut().fill_uniform(sh.b_res as usize, &mut src(sh.seed, 2));
                        let declared = m.glwe_encrypt_pk_tmp_bytes(&out_infos);
                        let r = if op == "glwe_encrypt_pk" {
                            windowed(declared, w, &mut |s| {
                                m.glwe_encrypt_pk(&mut ct, &pt, &pkp, &enc, &mut src(sh.seed, 3), &mut src(sh.seed, 4), s)
                            })
                        } else {
                            windowed(declared, w, &mut |s| {
                                m.glwe_encrypt_zero_pk(&mut ct, &pkp, &enc, &mut src(sh.seed, 3), &mut src(sh.seed, 4), s)
                            })
                        };
                        finish(r, declared, vec![ct.data().data.clone()])
                    }
                    "glwe_secret_tensor_prepare" | "glwe_tensor_decrypt" => {
                        let mut big: ScratchOwned<BE> = ScratchOwned::alloc(1 << 22);
                        let (s0, sp) = skp(c, rank, sh.seed);
                        let mut st: GLWESecretTensor<Vec<u8>> = GLWESecretTensor::alloc(Degree(sh.n), Rank(rank));
                        if op == "glwe_secret_tensor_prepare" {
                            let declared = m.glwe_secret_tensor_prepare_tmp_bytes(Rank(rank));
                            let r = windowed(declared, w, &mut |s| m.glwe_secret_tensor_prepare(&mut st, &s0, s));
                            let mut bytes: Vec<u8> = Vec::new();
                            for i in 0..rank as usize {
                                for j in i..rank as usize {
                                    let z = st.at(i, j);
                                    let d: &[u8] = z.data();
                                    bytes.extend_from_slice(d);
                                }
                            }
                            return Some(finish(r, declared, vec![bytes]));
                        }
                        m.glwe_secret_tensor_prepare(&mut st, &s0, big.borrow());
                        let mut stp = m.glwe_secret_tensor_prepared_alloc(Rank(rank));
                        m.glwe_secret_tensor_prepared_prepare(&mut stp, &st);
                        let mut ct: GLWETensor<Vec<u8>> = GLWETensor::alloc_from_infos(&out_infos);
                        ct.fill_uniform(sh.b_res as usize, &mut src(sh.seed, 6));
                        // the plaintext has its own radix and precision (the final normalisation converts)
                        let pt_infos = if sh.extra & 1 == 1 { gl(sh.n, sh.b_in, sh.k_in, rank) } else { out_infos };
                        let mut pt: GLWEPlaintext<Vec<u8>> = GLWEPlaintext::alloc_from_infos(&pt_infos);
                        let declared = m.glwe_tensor_decrypt_tmp_bytes(&out_infos);
                        let r = windowed(declared, w, &mut |s| m.glwe_tensor_decrypt(&ct, &mut pt, &sp, &stp, s));
                        finish(r, declared, vec![pt.data().data.clone()])
                    }
                    _ => return core_op3_e(op, sh, w),
                };
                Some(r)
            }

            /// poulpy_hal::api level: vector normalisation / shifts / automorphisms, vmp, convolutions.
            fn core_op3_e(op: &str, sh: &Shape, w: &Window) -> Option<RunResult> {
                use poulpy_hal::api::*;
                use poulpy_hal::layouts::{MatZnx, VecZnx};
                if !op.starts_with("hal_") {
                    return core_op3_f(op, sh, w);
                }
                let c = ctx(sh.n, 1);
                let m = &c.module;
                let mut big: ScratchOwned<BE> = ScratchOwned::alloc(1 << 22);
                let n = sh.n as usize;
                let size_in = sh.k_in.div_ceil(sh.b_in) as usize;
                let size_res = sh.k_res.div_ceil(sh.b_res) as usize;
                let cols = sh.rank_out as usize + 1;
                // source and destination column are chosen independently (first, last, middle; equal or not)
                let col = draw::index(sh.seed >> 4, cols);
                let res_col = draw::index(sh.seed >> 6, cols);
                let mut a: VecZnx<Vec<u8>> = VecZnx::alloc(n, cols, size_in);
                a.fill_uniform(sh.b_in as usize, &mut src(sh.seed, 6));
                // odd Galois element: from a rotation amount, or one of the special values
                let gal = if sh.seed & 1 == 0 { 2 * draw::rotation(sh.seed >> 40, sh.n) + 1 } else { draw::galois(sh.seed >> 44, sh.n) };
                let kbits = draw::bits(sh.seed >> 8, sh.b_in as usize, if sh.seed & 2 == 0 { size_in } else { size_res });
                macro_rules! bytes_of {
                    ($x:expr) => {{
                        let d: &[u8] = $x.data().as_ref();
                        d.to_vec()
                    }};
                }
                let r = match op {
                    "hal_vec_znx_normalize" => {
                        let mut res: VecZnx<Vec<u8>> = VecZnx::alloc(n, cols, size_res);
                        res.fill_uniform(sh.b_res as usize, &mut src(sh.seed, 7));
                        // offset: zero, within a limb, whole limbs, the whole precision of either side and beyond, either sign
                        let off = draw::offset(sh.seed >> 16, sh.b_in as usize, if sh.seed & 4 == 0 { size_in } else { size_res });
                        let declared = m.vec_znx_normalize_tmp_bytes();
                        let r = windowed(declared, w, &mut |s| {
                            m.vec_znx_normalize(&mut res, sh.b_res as usize, off, res_col, &a, sh.b_in as usize, col, s)
                        });
                        finish(r, declared, vec![res.data.clone()])
                    }
                    "hal_vec_znx_big_normalize" | "hal_vec_znx_big_automorphism_assign" => {
                        let mut ab = m.vec_znx_big_alloc(cols, size_in);
                        for i in 0..cols {
                            m.vec_znx_big_from_small(&mut ab, i, &a, i);
                        }
                        if op == "hal_vec_znx_big_normalize" {
                            let mut res: VecZnx<Vec<u8>> = VecZnx::alloc(n, cols, size_res);
                            res.fill_uniform(sh.b_res as usize, &mut src(sh.seed, 7));
                            let off = draw::offset(sh.seed >> 16, sh.b_in as usize, if sh.seed & 4 == 0 { size_in } else { size_res });
                            let declared = m.vec_znx_big_normalize_tmp_bytes();
                            let r = windowed(declared, w, &mut |s| {
                                m.vec_znx_big_normalize(&mut res, sh.b_res as usize, off, res_col, &ab, sh.b_in as usize, col, s)
                            });
                            finish(r, declared, vec![res.data.clone()])
                        } else {
                            let declared = m.vec_znx_big_automorphism_assign_tmp_bytes();
                            let r = windowed(declared, w, &mut |s| m.vec_znx_big_automorphism_assign(gal, &mut ab, col, s));
                            finish(r, declared, vec![bytes_of!(ab)])
                        }
                    }
                    "hal_vec_znx_automorphism_assign" => {
                        let declared = m.vec_znx_automorphism_assign_tmp_bytes();
                        let r = windowed(declared, w, &mut |s| m.vec_znx_automorphism_assign(gal, &mut a, col, s));
                        finish(r, declared, vec![a.data.clone()])
                    }
                    "hal_vec_znx_rsh" | "hal_vec_znx_rsh_add_into" | "hal_vec_znx_rsh_sub" | "hal_vec_znx_lsh" | "hal_vec_znx_lsh_add_into"
                    | "hal_vec_znx_lsh_sub" => {
                        let mut res: VecZnx<Vec<u8>> = VecZnx::alloc(n, cols, size_res);
                        res.fill_uniform(sh.b_in as usize, &mut src(sh.seed, 7));
                        let b = sh.b_in as usize;
                        let declared = if op.contains("rsh") { m.vec_znx_rsh_tmp_bytes() } else { m.vec_znx_lsh_tmp_bytes() };
                        let r = match op {
                            "hal_vec_znx_rsh" => windowed(declared, w, &mut |s| m.vec_znx_rsh(b, kbits, &mut res, res_col, &a, col, s)),
                            "hal_vec_znx_rsh_add_into" => {
                                windowed(declared, w, &mut |s| m.vec_znx_rsh_add_into(b, kbits, &mut res, res_col, &a, col, s))
                            }
                            "hal_vec_znx_rsh_sub" => windowed(declared, w, &mut |s| m.vec_znx_rsh_sub(b, kbits, &mut res, res_col, &a, col, s)),
                            "hal_vec_znx_lsh" => windowed(declared, w, &mut |s| m.vec_znx_lsh(b, kbits, &mut res, res_col, &a, col, s)),
                            "hal_vec_znx_lsh_add_into" => {
                                windowed(declared, w, &mut |s| m.vec_znx_lsh_add_into(b, kbits, &mut res, res_col, &a, col, s))
                            }
                            _ => windowed(declared, w, &mut |s| m.vec_znx_lsh_sub(b, kbits, &mut res, res_col, &a, col, s)),
                        };
                        finish(r, declared, vec![res.data.clone()])
                    }
                    "hal_vec_znx_idft_apply" => {
                        let mut ad = m.vec_znx_dft_alloc(cols, size_in);
                        for i in 0..cols {
                            m.vec_znx_dft_apply(1, 0, &mut ad, i, &a, i);
                        }
                        let mut res = m.vec_znx_big_alloc(cols, size_res);
                        let declared = m.vec_znx_idft_apply_tmp_bytes();
                        let r = windowed(declared, w, &mut |s| m.vec_znx_idft_apply(&mut res, res_col, &ad, col, s));
                        finish(r, declared, vec![bytes_of!(res)])
                    }
                    "hal_vmp_prepare" | "hal_vmp_apply_dft_to_dft" | "hal_vmp_apply_dft" => {
                        let rows = sh.dnum() as usize;
                        let cols_in = sh.rank_in as usize;
                        let cols_out = sh.rank_out as usize + 1;
                        let size_key = sh.k_key.div_ceil(sh.b_key) as usize;
                        let mut mat: MatZnx<Vec<u8>> = MatZnx::alloc(n, rows, cols_in, cols_out, size_key);
                        mat.fill_uniform(sh.b_key as usize, &mut src(sh.seed, 2));
                        let mut pm = m.vmp_pmat_alloc(rows, cols_in, cols_out, size_key);
                        // the vector may have fewer columns than the matrix has input columns (the product pads it)
                        let a_cols = if (sh.seed >> 36) % 2 == 0 { cols_in } else { 1 + ((sh.seed >> 37) as usize % cols_in) };
                        let mut x: VecZnx<Vec<u8>> = VecZnx::alloc(n, a_cols, size_in);
                        x.fill_uniform(sh.b_in as usize, &mut src(sh.seed, 6));
                        let mut xd = m.vec_znx_dft_alloc(a_cols, size_in);
                        for i in 0..a_cols {
                            m.vec_znx_dft_apply(1, 0, &mut xd, i, &x, i);
                        }
                        let mut res = m.vec_znx_dft_alloc(cols_out, size_res);
                        if op == "hal_vmp_prepare" {
                            let declared = m.vmp_prepare_tmp_bytes(rows, cols_in, cols_out, size_key);
                            let r = windowed(declared, w, &mut |s| m.vmp_prepare(&mut pm, &mat, s));
                            if r.0.is_ok() {
                                m.vmp_apply_dft_to_dft(&mut res, &xd, &pm, 0, big.borrow());
                            }
                            return Some(finish(r, declared, vec![bytes_of!(res)]));
                        }
                        m.vmp_prepare(&mut pm, &mat, big.borrow());
                        if op == "hal_vmp_apply_dft_to_dft" {
                            // limb offset into the matrix rows: first, last, middle, and one at / past the end (all-zero result)
                            let limb_offset = draw::index(sh.seed >> 28, size_key + 2);
                            let declared = m.vmp_apply_dft_to_dft_tmp_bytes(size_res, size_in, rows, cols_in, cols_out, size_key);
                            let r = windowed(declared, w, &mut |s| m.vmp_apply_dft_to_dft(&mut res, &xd, &pm, limb_offset, s));
                            finish(r, declared, vec![bytes_of!(res)])
                        } else {
                            let declared = m.vmp_apply_dft_tmp_bytes(size_res, size_in, rows, cols_in, cols_out, size_key);
                            let r = windowed(declared, w, &mut |s| m.vmp_apply_dft(&mut res, &x, &pm, s));
                            finish(r, declared, vec![bytes_of!(res)])
                        }
                    }
                    "hal_cnv_prepare_left" | "hal_cnv_prepare_right" | "hal_cnv_prepare_self" | "hal_cnv_apply_dft"
                    | "hal_cnv_pairwise_apply_dft" => {
                        let size_b = 1 + (sh.extra as usize % 3);
                        let mut b: VecZnx<Vec<u8>> = VecZnx::alloc(n, cols, size_b);
                        b.fill_uniform(sh.b_in as usize, &mut src(sh.seed, 7));
                        let mask: i64 = -1i64 << (sh.seed % sh.b_in as u64);
                        let mut ap = m.cnv_pvec_left_alloc(cols, size_in);
                        let mut bp = m.cnv_pvec_right_alloc(cols, size_b);
                        match op {
                            // the prepared operand has its own limb count (the query takes both: fewer, as many, more
                            // limbs than the source)
                            "hal_cnv_prepare_left" => {
                                let size_p = 1 + (sh.seed >> 36) as usize % (size_in + 1);
                                let mut ap = m.cnv_pvec_left_alloc(cols, size_p);
                                let declared = m.cnv_prepare_left_tmp_bytes(size_p, size_in);
                                let r = windowed(declared, w, &mut |s| m.cnv_prepare_left(&mut ap, &a, mask, s));
                                return Some(finish(r, declared, vec![bytes_of!(ap)]));
                            }
                            "hal_cnv_prepare_right" => {
                                let size_p = 1 + (sh.seed >> 36) as usize % (size_b + 1);
                                let mut bp = m.cnv_pvec_right_alloc(cols, size_p);
                                let declared = m.cnv_prepare_right_tmp_bytes(size_p, size_b);
                                let r = windowed(declared, w, &mut |s| m.cnv_prepare_right(&mut bp, &b, mask, s));
                                return Some(finish(r, declared, vec![bytes_of!(bp)]));
                            }
                            "hal_cnv_prepare_self" => {
                                let size_p = 1 + (sh.seed >> 36) as usize % (size_in + 1);
                                let mut ap = m.cnv_pvec_left_alloc(cols, size_p);
                                let mut bp2 = m.cnv_pvec_right_alloc(cols, size_p);
                                let declared = m.cnv_prepare_self_tmp_bytes(size_p, size_in);
                                let r = windowed(declared, w, &mut |s| m.cnv_prepare_self(&mut ap, &mut bp2, &a, mask, s));
                                return Some(finish(r, declared, vec![bytes_of!(ap), bytes_of!(bp2)]));
                            }
                            _ => {}
                        }
                        m.cnv_prepare_left(&mut ap, &a, mask, big.borrow());
                        m.cnv_prepare_right(&mut bp, &b, mask, big.borrow());
                        // offset in limbs ("scaled by 2^{cnv_offset * Base2K}"): none, one, the middle, the last limb of the
                        // full product, and one past it (the implementations clamp it to a_size + b_size - 1)
                        let cnv_offset = draw::index(sh.seed >> 28, size_in + size_b + 1);
                        // result length: anything from 1 limb to the full product and one more ("truncated accordingly")
                        let res_size = 1 + (sh.seed as usize >> 20) % (size_in + size_b + 1);
                        // the result is one column of a vector with several; the operands' columns are independent
                        let b_col = draw::index(sh.seed >> 10, cols);
                        let mut res = m.vec_znx_dft_alloc(cols, res_size);
                        if op == "hal_cnv_apply_dft" {
                            let declared = m.cnv_apply_dft_tmp_bytes(cnv_offset, res_size, size_in, size_b);
                            let r = windowed(declared, w, &mut |s| m.cnv_apply_dft(cnv_offset, &mut res, res_col, &ap, col, &bp, b_col, s));
                            finish(r, declared, vec![bytes_of!(res)])
                        } else {
                            // i <= j as every caller has it; i == j is the documented short cut to cnv_apply_dft
                            let j = b_col;
                            let declared = m.cnv_pairwise_apply_dft_tmp_bytes(cnv_offset, res_size, size_in, size_b);
                            let r = windowed(declared, w, &mut |s| {
                                m.cnv_pairwise_apply_dft(cnv_offset, &mut res, res_col, &ap, &bp, col.min(j), col.max(j), s)
                            });
                            finish(r, declared, vec![bytes_of!(res)])
                        }
                    }
                    "hal_cnv_by_const_apply" => {
                        let size_b = 1 + (sh.extra as usize % 3);
                        let mut b: Vec<i64> = vec![0i64; size_b];
                        {
                            let mut sx = src(sh.seed, 5);
                            for x in b.iter_mut() {
                                *x = ((sx.next_i64() as u64) % (1u64 << sh.b_in)) as i64 - (1i64 << (sh.b_in - 1));
                            }
                        }
                        let cnv_offset = draw::index(sh.seed >> 28, size_in + size_b + 1);
                        let res_size = 1 + (sh.seed as usize >> 20) % (size_in + size_b + 1);
                        let mut res = m.vec_znx_big_alloc(cols, res_size);
                        let declared = m.cnv_by_const_apply_tmp_bytes(cnv_offset, res_size, size_in, size_b);
                        let r = windowed(declared, w, &mut |s| m.cnv_by_const_apply(cnv_offset, &mut res, res_col, &a, col, &b, s));
                        finish(r, declared, vec![bytes_of!(res)])
                    }
                    _ => return core_op3_f(op, sh, w),
                };
                Some(r)
            }

            /// poulpy-bin-fhe: selector products, blind rotation, encrypted words.
            fn core_op3_f(op: &str, sh: &Shape, w: &Window) -> Option<RunResult> {
                use poulpy_bin_fhe::bdd_arithmetic::{Cmux, Cswap};
                use poulpy_bin_fhe::blind_rotation::{
                    BlindRotationExecute, BlindRotationKey, BlindRotationKeyEncryptSk, BlindRotationKeyPrepared,
                    BlindRotationKeyPreparedFactory, LookUpTableLayout, LookupTable,
                };
                use poulpy_core::layouts::{LWE, LWELayout};
                let c = ctx(sh.n, 1);
                let m = &c.module;
                let mut big: ScratchOwned<BE> = ScratchOwned::alloc(1 << 22);
                let rank = sh.rank_out;
                let r = match op {
                    "cmux_assign" | "cmux_assign_neg" | "cswap" => {
                        // The selector product is `glwe_external_product_internal`, whose entry assert wants the operand in
                        // the GGSW's radix (`cswap` has a branch for another radix, but it subtracts the unconverted inputs
                        // into a key-radix temporary and trips `glwe_sub`'s radix assert): the ciphertexts are in the key's
                        // radix, one draw in four in the shape's own input radix (rejected at entry when it differs).
                        let b_g = if (sh.seed >> 53) & 3 == 0 { sh.b_in } else { sh.b_key };
                        let in_infos = gl(sh.n, b_g, sh.k_in, rank);
                        let ggsw_infos = ggsw_key_layout(sh, rank);
                        let mut ggsw: GGSW<Vec<u8>> = GGSW::alloc_from_infos(&ggsw_infos);
                        ggsw.fill_uniform(sh.b_key as usize, &mut src(sh.seed, 2));
                        let mut gp = m.ggsw_prepared_alloc_from_infos(&ggsw);
                        m.ggsw_prepare(&mut gp, &ggsw, big.borrow());
                        let mut a: GLWE<Vec<u8>> = GLWE::alloc_from_infos(&in_infos);
                        a.fill_uniform(b_g as usize, &mut src(sh.seed, 6));
                        if op == "cswap" {
                            // both sides share the radix; precisions may differ
                            let b_infos = gl(sh.n, b_g, sh.k_res, rank);
                            let mut b: GLWE<Vec<u8>> = GLWE::alloc_from_infos(&b_infos);
                            b.fill_uniform(b_g as usize, &mut src(sh.seed, 7));
                            let declared = m.cswap_tmp_bytes(&in_infos, &b_infos, &ggsw_infos);
                            let r = windowed(declared, w, &mut |s| m.cswap(&mut a, &mut b, &gp, s));
                            finish(r, declared, vec![a.data().data.clone(), b.data().data.clone()])
                        } else {
                            // receiver and operand share the radix (entry assert); their precisions are independent
                            // (narrower, equal, wider receiver)
                            let res_infos = gl(sh.n, b_g, if sh.extra & 1 == 1 { sh.k_res } else { sh.k_in }, rank);
                            let mut res: GLWE<Vec<u8>> = GLWE::alloc_from_infos(&res_infos);
                            res.fill_uniform(b_g as usize, &mut src(sh.seed, 7));
                            let declared = if op == "cmux_assign" {
                                m.cmux_tmp_bytes(&res_infos, &in_infos, &ggsw_infos)
                            } else {
                                m.cmux_assign_neg_tmp_bytes(&res_infos, &in_infos, &ggsw_infos)
                            };
                            let r = if op == "cmux_assign" {
                                windowed(declared, w, &mut |s| m.cmux_assign(&mut res, &a, &gp, s))
                            } else {
                                windowed(declared, w, &mut |s| m.cmux_assign_neg(&mut res, &a, &gp, s))
                            };
                            finish(r, declared, vec![res.data().data.clone()])
                        }
                    }
                    "blind_rotation_execute" | "blind_rotation_execute_extended" | "blind_rotation_key_encrypt_sk" | "blind_rotation_key_prepare" => {
                        let rank = sh.rank_out.min(2);
                        // block size 1..4 of the block-binary LWE secret; the LWE dimension is a multiple of it (the
                        // key is consumed block by block)
                        let block = 1 + (sh.seed >> 36) as u32 % 4;
                        let n_lwe = sh.n_lwe.max(2).next_multiple_of(block);
                        let brk_infos = BlindRotationKeyLayout {
                            n_glwe: Degree(sh.n),
                            n_lwe: Degree(n_lwe),
                            base2k: Base2K(sh.b_key),
                            k: TorusPrecision(sh.k_key),
                            dnum: Dnum(sh.k_key.div_ceil(sh.b_key).saturating_sub(1).max(1).min(1 + sh.extra % 3)),
                            rank: Rank(rank),
                        };
                        let enc = EncryptionLayout::new_from_default_sigma(brk_infos).unwrap();
                        let mut sk_lwe: LWESecret<Vec<u8>> = LWESecret::alloc(Degree(n_lwe));
                        sk_lwe.fill_binary_block(block as usize, &mut src(sh.seed, 9));
                        let (_s, sp) = skp(c, rank, sh.seed);
                        let mut brk: BlindRotationKey<Vec<u8>, CGGI> = BlindRotationKey::alloc(&brk_infos);
                        if op == "blind_rotation_key_encrypt_sk" {
                            let declared = m.blind_rotation_key_encrypt_sk_tmp_bytes(&brk_infos);
                            let r = windowed(declared, w, &mut |s| {
                                m.blind_rotation_key_encrypt_sk(&mut brk, &sp, &sk_lwe, &enc, &mut src(sh.seed, 3), &mut src(sh.seed, 4), s)
                            });
                            return Some(finish(r, declared, vec![ser(&brk)]));
                        }
                        m.blind_rotation_key_encrypt_sk(&mut brk, &sp, &sk_lwe, &enc, &mut src(sh.seed, 3), &mut src(sh.seed, 4), big.borrow());
                        let mut bp: BlindRotationKeyPrepared<DeviceBuf<BE>, CGGI, BE> = BlindRotationKeyPrepared::alloc(m, &brk);
                        // extension factor: "a non-zero power of two" (2, 4 or 8 for the extended op)
                        let ext: usize = if op == "blind_rotation_execute_extended" { [2usize, 4, 2, 8][(sh.seed >> 38) as usize % 4] } else { 1 };
                        let res_infos = gl(sh.n, sh.b_key, sh.k_res.max(2), rank);
                        let lwe_b = 3 + sh.extra;
                        let lwe_infos = LWELayout {
                            n: Degree(n_lwe),
                            k: TorusPrecision(2 * lwe_b),
                            base2k: Base2K(lwe_b),
                        };
                        let mut lwe: LWE<Vec<u8>> = LWE::alloc_from_infos(&lwe_infos);
                        lwe.fill_uniform(lwe_b as usize, &mut src(sh.seed, 6));
                        // table: one limb or two (narrower / as wide as / wider than the result), 1, 2, 4 or N entries
                        // (a power of two, so that the steps tile the domain), 1..6 message bits
                        let lut_k = if (sh.seed >> 41) & 1 == 0 { sh.b_key } else { sh.b_key + 1 + (sh.seed >> 42) as u32 % sh.b_key };
                        let lut_infos = LookUpTableLayout {
                            n: Degree(sh.n),
                            extension_factor: ext,
                            k: TorusPrecision(lut_k),
                            base2k: Base2K(sh.b_key),
                        };
                        let mut lut: LookupTable = LookupTable::alloc(&lut_infos);
                        let f_len = [1usize, 2, 4, sh.n as usize][(sh.seed >> 46) as usize % 4];
                        let f: Vec<i64> = (0..f_len as i64).map(|i| if i % 3 == 2 { -(2 * i + 1) } else { 2 * i + 1 }).collect();
                        lut.set(m, &f, 1 + (sh.seed >> 48) as usize % (sh.b_key as usize).min(6));
                        let mut res: GLWE<Vec<u8>> = GLWE::alloc_from_infos(&res_infos);
                        if op == "blind_rotation_key_prepare" {
                            let declared = m.blind_rotation_key_prepare_tmp_bytes(&brk_infos);
                            let r = windowed(declared, w, &mut |s| m.prepare_blind_rotation_key(&mut bp, &brk, s));
                            if r.0.is_ok() {
                                m.blind_rotation_execute(&mut res, &lwe, &lut, &bp, big.borrow());
                            }
                            return Some(finish(r, declared, vec![res.data().data.clone()]));
                        }
                        m.prepare_blind_rotation_key(&mut bp, &brk, big.borrow());
                        let declared = BlindRotationExecute::<CGGI, BE>::blind_rotation_execute_tmp_bytes(m, block as usize, ext, &res_infos, &brk_infos);
                        let r = windowed(declared, w, &mut |s| m.blind_rotation_execute(&mut res, &lwe, &lut, &bp, s));
                        finish(r, declared, vec![res.data().data.clone()])
                    }
                    "fhe_uint_encrypt_sk" | "fhe_uint_decrypt" => {
                        // every word type whose bits fit the ring (N a multiple of the word size)
                        let fits: Vec<u32> = [8u32, 16, 32, 64, 128].into_iter().filter(|b| *b <= sh.n).collect();
                        match fits[(sh.seed >> 50) as usize % fits.len()] {
                            128 => fhe_uint_enc_dec::<u128>(op, sh, w, c),
                            64 => fhe_uint_enc_dec::<u64>(op, sh, w, c),
                            32 => fhe_uint_enc_dec::<u32>(op, sh, w, c),
                            16 => fhe_uint_enc_dec::<u16>(op, sh, w, c),
                            _ => fhe_uint_enc_dec::<u8>(op, sh, w, c),
                        }
                    }
                    _ => return core_op3_g(op, sh, w),
                };
                Some(r)
            }

            /// `FheUint::{encrypt_sk, decrypt}` on a word of type `T`.
            fn fhe_uint_enc_dec<T>(op: &str, sh: &Shape, w: &Window, c: &Ctx) -> RunResult
            where
                T: poulpy_bin_fhe::bdd_arithmetic::UnsignedInteger + poulpy_bin_fhe::bdd_arithmetic::ToBits + poulpy_bin_fhe::bdd_arithmetic::FromBits,
            {
                let m = &c.module;
                let mut big: ScratchOwned<BE> = ScratchOwned::alloc(1 << 22);
                let rank = sh.rank_out;
                let infos = gl(sh.n, sh.b_res, sh.k_res, rank);
                let enc = EncryptionLayout::new_from_default_sigma(infos).unwrap();
                let (_s, sp) = skp(c, rank, sh.seed);
                // the value: all zero, all one, or random bits
                let bits: Vec<u8> = (0..T::BITS as usize)
                    .map(|i| match (sh.seed >> 54) % 4 {
                        0 => 0,
                        1 => 1,
                        _ => ((sh.seed.rotate_left(i as u32 / 64 * 13) >> (i % 64)) & 1) as u8,
                    })
                    .collect();
                let value = T::from_bits(&bits);
                let mut word: FheUint<Vec<u8>, T> = FheUint::alloc_from_infos(&infos);
                if op == "fhe_uint_encrypt_sk" {
                    let declared = word.encrypt_sk_tmp_bytes(m);
                    let r = windowed(declared, w, &mut |s| {
                        word.encrypt_sk(m, value, &sp, &enc, &mut src(sh.seed, 3), &mut src(sh.seed, 4), s)
                    });
                    let bytes: Vec<u8> = {
                        use poulpy_core::layouts::GLWEToRef;
                        let g = word.to_ref();
                        let d: &[u8] = g.data().data;
                        d.to_vec()
                    };
                    finish(r, declared, vec![bytes])
                } else {
                    word.encrypt_sk(m, value, &sp, &enc, &mut src(sh.seed, 3), &mut src(sh.seed, 4), big.borrow());
                    let declared = word.decrypt_tmp_bytes(m);
                    let mut out: Vec<u8> = Vec::new();
                    let r = windowed(declared, w, &mut |s| {
                        let v = word.decrypt(m, &sp, s);
                        out = (0..T::BITS as usize).map(|i| v.bit(i)).collect();
                    });
                    finish(r, declared, vec![out])
                }
            }

            /// poulpy-bin-fhe: operations selected / rotated by the bits of an encrypted word (the shared 8-bit word of the context).
            fn core_op3_g(op: &str, sh: &Shape, w: &Window) -> Option<RunResult> {
                use poulpy_bin_fhe::bdd_arithmetic::{GGSWBlindRotation, GLWEBlindRetrieval, GLWEBlindRetriever, GLWEBlindRotation, GLWEBlindSelection};
                let c = ctx(sh.n, 1);
                let m = &c.module;
                // same radix as the selector bits (13); precision from one to three limbs
                let b = 13u32;
                let k = b * (1 + sh.extra % 3) - (sh.seed % 5) as u32;
                let infos = gl(sh.n, b, k, 1);
                // bit window of the 8-bit selector word: `bit_mask` bits starting at `bit_rsh`, anywhere up to the end of
                // the word (`bit_rsh + bit_mask <= T::BITS`), an empty window included; `wide`: up to the whole word
                let window = |max_mask: usize| -> (usize, usize) {
                    let bit_mask = match (sh.seed >> 12) % 8 {
                        0 => 0,
                        1 => max_mask,
                        _ => 1 + (sh.seed as usize >> 15) % max_mask,
                    };
                    let bit_rsh = match (sh.seed >> 20) % 4 {
                        0 => 0,
                        1 => 8 - bit_mask,
                        _ => (sh.seed as usize >> 22) % (8 - bit_mask + 1),
                    };
                    (bit_rsh, bit_mask)
                };
                // rotations: one cmux per bit, so the whole word is affordable; the exponent is shifted by up to
                // log2(2N) + 1 bits (the rotation is taken mod 2N)
                let (bit_rsh, bit_mask) = window(8);
                let bit_lsh = (sh.seed as usize >> 26) % (sh.n.trailing_zeros() as usize + 3);
                let sign = sh.seed & (1 << 30) != 0;
                let mk = |i: u64| -> GLWE<Vec<u8>> {
                    let mut ct: GLWE<Vec<u8>> = GLWE::alloc_from_infos(&infos);
                    ct.fill_uniform(b as usize, &mut src(sh.seed ^ (i << 32), 6));
                    ct
                };
                let r = match op {
                    "glwe_blind_selection" => {
                        // 2^bit_mask candidates: at most 32
                        let (bit_rsh, bit_mask) = window(5);
                        let count = 1 << bit_mask;
                        let keep = sh.seed >> 24;
                        let mut cts: Vec<(usize, GLWE<Vec<u8>>)> =
                            (0..count).filter(|i| *i == 0 || (keep >> i) & 1 == 1).map(|i| (i, mk(i as u64))).collect();
                        let mut res: GLWE<Vec<u8>> = GLWE::alloc_from_infos(&infos);
                        let declared = <Module<BE> as GLWEBlindSelection<u8, BE>>::glwe_blind_selection_tmp_bytes(m, &infos, &c.ggsw_infos);
                        let r = windowed(declared, w, &mut |s| {
                            let mut map: std::collections::HashMap<usize, &mut GLWE<Vec<u8>>> = std::collections::HashMap::new();
                            for (i, ct) in cts.iter_mut() {
                                map.insert(*i, ct);
                            }
                            <Module<BE> as GLWEBlindSelection<u8, BE>>::glwe_blind_selection(m, &mut res, map, &c.inputs, bit_rsh, bit_mask, s)
                        });
                        finish(r, declared, vec![res.data().data.clone()])
                    }
                    "glwe_blind_rotation" | "glwe_blind_rotation_assign" => {
                        let mut a = mk(1);
                        let declared = m.glwe_blind_rotation_tmp_bytes(&infos, &c.ggsw_infos);
                        if op == "glwe_blind_rotation" {
                            let mut res: GLWE<Vec<u8>> = GLWE::alloc_from_infos(&infos);
                            let r = windowed(declared, w, &mut |s| {
                                m.glwe_blind_rotation(&mut res, &a, &c.inputs, sign, bit_rsh, bit_mask, bit_lsh, s)
                            });
                            finish(r, declared, vec![res.data().data.clone()])
                        } else {
                            let r = windowed(declared, w, &mut |s| {
                                m.glwe_blind_rotation_assign(&mut a, &c.inputs, sign, bit_rsh, bit_mask, bit_lsh, s)
                            });
                            finish(r, declared, vec![a.data().data.clone()])
                        }
                    }
                    "glwe_blind_retrieval_statefull" | "glwe_blind_retrieval_statefull_rev" => {
                        // the vector may hold fewer (or, harmlessly, more) entries than 2^bit_mask
                        let (bit_rsh, bit_mask) = window(5);
                        let count = 1 + (sh.seed as usize >> 32) % ((1 << bit_mask) + 1);
                        let mut cts: Vec<GLWE<Vec<u8>>> = (0..count).map(|i| mk(i as u64)).collect();
                        let declared = m.glwe_blind_retrieval_tmp_bytes(&infos, &c.ggsw_infos);
                        let r = if op == "glwe_blind_retrieval_statefull" {
                            windowed(declared, w, &mut |s| m.glwe_blind_retrieval_statefull(&mut cts, &c.inputs, bit_rsh, bit_mask, s))
                        } else {
                            windowed(declared, w, &mut |s| m.glwe_blind_retrieval_statefull_rev(&mut cts, &c.inputs, bit_rsh, bit_mask, s))
                        };
                        finish(r, declared, cts.iter().map(|x| x.data().data.clone()).collect())
                    }
                    "glwe_blind_retriever_retrieve" => {
                        // 1..=17 entries (up to five accumulator levels); the selector bits used are offset..offset+levels
                        let count = 1 + (sh.seed as usize >> 32) % 17;
                        let levels = (u32::BITS - (count.max(2) as u32 - 1).leading_zeros()) as usize;
                        let bit_rsh = draw::index(sh.seed >> 20, 8 - levels + 1);
                        let cts: Vec<GLWE<Vec<u8>>> = (0..count).map(|i| mk(i as u64)).collect();
                        let mut retriever = GLWEBlindRetriever::alloc(&infos, count.max(2));
                        let mut res: GLWE<Vec<u8>> = GLWE::alloc_from_infos(&infos);
                        let declared = GLWEBlindRetriever::retrieve_tmp_bytes(m, &infos, &c.ggsw_infos);
                        let r = windowed(declared, w, &mut |s| retriever.retrieve(m, &mut res, &cts, &c.inputs, bit_rsh, s));
                        finish(r, declared, vec![res.data().data.clone()])
                    }
                    "ggsw_blind_rotation" | "ggsw_blind_rotation_assign" | "scalar_to_ggsw_blind_rotation" => {
                        let kk = k.max(b + 1);
                        let size = kk.div_ceil(b);
                        let ginfos = GGSWLayout {
                            n: Degree(sh.n),
                            base2k: Base2K(b),
                            k: TorusPrecision(kk),
                            rank: Rank(1),
                            dnum: Dnum(1 + (sh.seed as u32 >> 28) % size),
                            dsize: Dsize(1),
                        };
                        let mut a: GGSW<Vec<u8>> = GGSW::alloc_from_infos(&ginfos);
                        a.fill_uniform(b as usize, &mut src(sh.seed, 6));
                        let mut res: GGSW<Vec<u8>> = GGSW::alloc_from_infos(&ginfos);
                        match op {
                            "ggsw_blind_rotation" => {
                                let declared = <Module<BE> as GGSWBlindRotation<u8, BE>>::ggsw_to_ggsw_blind_rotation_tmp_bytes(m, &ginfos, &c.ggsw_infos);
                                let r = windowed(declared, w, &mut |s| {
                                    <Module<BE> as GGSWBlindRotation<u8, BE>>::ggsw_blind_rotation(
                                        m, &mut res, &a, &c.inputs, sign, bit_rsh, bit_mask, bit_lsh, s,
                                    )
                                });
                                finish(r, declared, vec![ser(&res)])
                            }
                            "ggsw_blind_rotation_assign" => {
                                let declared = <Module<BE> as GGSWBlindRotation<u8, BE>>::ggsw_to_ggsw_blind_rotation_tmp_bytes(m, &ginfos, &c.ggsw_infos);
                                let r = windowed(declared, w, &mut |s| {
                                    <Module<BE> as GGSWBlindRotation<u8, BE>>::ggsw_blind_rotation_assign(
                                        m, &mut a, &c.inputs, sign, bit_rsh, bit_mask, bit_lsh, s,
                                    )
                                });
                                finish(r, declared, vec![ser(&a)])
                            }
                            _ => {
                                let mut tv: poulpy_hal::layouts::ScalarZnx<Vec<u8>> = poulpy_hal::layouts::ScalarZnx::alloc(sh.n as usize, 1);
                                tv.fill_uniform(3, &mut src(sh.seed, 2));
                                let declared =
                                    <Module<BE> as GGSWBlindRotation<u8, BE>>::scalar_to_ggsw_blind_rotation_tmp_bytes(m, &ginfos, &c.ggsw_infos);
                                let r = windowed(declared, w, &mut |s| {
                                    <Module<BE> as GGSWBlindRotation<u8, BE>>::scalar_to_ggsw_blind_rotation(
                                        m, &mut res, &tv, &c.inputs, sign, bit_rsh, bit_mask, bit_lsh, s,
                                    )
                                });
                                finish(r, declared, vec![ser(&res)])
                            }
                        }
                    }
                    _ => return None,
                };
                Some(r)
            }
        }
    };
}
pub(crate) use core_ops3_impl;
