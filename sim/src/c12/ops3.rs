//! Third part of the C12 op inventory (same conventions as ops.rs / ops2.rs).
//! Each op: build inputs from the Shape (random contents are fine), ask the library for the
//! declared scratch size, run the call through `windowed`, return the output bytes via `finish`.
macro_rules! core_ops3_impl {
    ($be:ty) => {
        pub mod ops3 {
            #[allow(unused_imports)]
            use super::ops::{finish_pub as finish, src_pub as src, windowed};
            #[allow(unused_imports)]
            use super::*;
            use crate::c12::ops::Shape;
            #[allow(unused_imports)]
            use poulpy_core::layouts::{
                GGLWE, GGLWELayout, GGLWEPreparedFactory, GGLWEToGGSWKey, GGLWEToGGSWKeyPreparedFactory, GGSW, GGSWPreparedFactory,
                GLWEAutomorphismKey, GLWEAutomorphismKeyPreparedFactory, GLWEPlaintext, GLWESwitchingKey, GLWESwitchingKeyLayout,
                GLWESwitchingKeyPreparedFactory,
            };
            #[allow(unused_imports)]
            use poulpy_core::{
                GGLWEExternalProduct, GGLWEKeyswitch, GGSWAutomorphism, GGSWExternalProduct, GGSWKeyswitch, GLWEAutomorphism,
                GLWEAutomorphismKeyAutomorphism, GLWEAutomorphismKeyEncryptSk,
            };
            #[allow(unused_imports)]
            use poulpy_hal::layouts::{FillUniform, WriterTo};

            pub const OPS3: &[&str] = &[
                "gglwe_keyswitch",
                "gglwe_keyswitch_assign",
                "gglwe_external_product",
                "gglwe_external_product_assign",
                "ggsw_external_product",
                "ggsw_external_product_assign",
                "ggsw_keyswitch",
                "ggsw_keyswitch_assign",
                "ggsw_automorphism",
                "ggsw_automorphism_assign",
                "glwe_automorphism_key_automorphism",
                "glwe_automorphism_key_automorphism_assign",
                "glwe_automorphism_assign",
                "glwe_automorphism_add",
                "glwe_automorphism_add_assign",
                "glwe_automorphism_sub",
                "glwe_automorphism_sub_negate",
                "glwe_automorphism_sub_assign",
                "glwe_automorphism_sub_negate_assign",
                "lwe_keyswitch",
                "lwe_switching_key_prepare",
                "glwe_from_lwe",
                "lwe_to_glwe_key_prepare",
                "lwe_to_glwe_key_encrypt_sk",
                "lwe_from_glwe",
                "lwe_from_glwe_idx0",
                "glwe_to_lwe_key_prepare",
                "glwe_to_lwe_key_encrypt_sk",
                "ggsw_from_gglwe",
                "ggsw_expand_row",
                "gglwe_to_ggsw_key_prepare",
                "gglwe_to_ggsw_key_encrypt_sk",
                "lwe_encrypt_sk",
                "lwe_decrypt",
                "gglwe_encrypt_sk",
                "glwe_automorphism_key_encrypt_sk",
                "glwe_automorphism_key_prepare",
                "gglwe_prepare",
            ];

            fn gl(n: u32, b: u32, k: u32, rank: u32) -> GLWELayout {
                GLWELayout {
                    n: Degree(n),
                    base2k: Base2K(b),
                    k: TorusPrecision(k),
                    rank: Rank(rank),
                }
            }

            #[allow(dead_code)]
            fn skp(c: &Ctx, rank: u32, seed: u64) -> (GLWESecret<Vec<u8>>, GLWESecretPrepared<DeviceBuf<BE>, BE>) {
                let mut s: GLWESecret<Vec<u8>> = GLWESecret::alloc(Degree(c.n), Rank(rank));
                s.fill_ternary_prob(0.5, &mut src(seed, 1));
                let mut p: GLWESecretPrepared<DeviceBuf<BE>, BE> = c.module.glwe_secret_prepared_alloc(Rank(rank));
                c.module.glwe_secret_prepare(&mut p, &s);
                (s, p)
            }

            fn ser<T: WriterTo>(x: &T) -> Vec<u8> {
                let mut bytes = Vec::new();
                x.write_to(&mut bytes).unwrap();
                bytes
            }

            /// A gadget ciphertext layout (dsize 1) in radix `b` of about `k` bits: (k, size, dnum).
            fn gadget_ct(b: u32, k: u32, extra: u32) -> (u32, u32, u32) {
                let k = k.max(b + 1);
                let size = k.div_ceil(b);
                (k, size, 1 + extra % size)
            }

            fn ksk_layout(sh: &Shape, rank_in: u32, rank_out: u32) -> GLWESwitchingKeyLayout {
                GLWESwitchingKeyLayout {
                    n: Degree(sh.n),
                    base2k: Base2K(sh.b_key),
                    k: TorusPrecision(sh.k_key),
                    dnum: Dnum(sh.dnum()),
                    dsize: Dsize(sh.dsize),
                    rank_in: Rank(rank_in),
                    rank_out: Rank(rank_out),
                }
            }

            fn atk_layout(sh: &Shape, rank: u32) -> GLWEAutomorphismKeyLayout {
                GLWEAutomorphismKeyLayout {
                    n: Degree(sh.n),
                    base2k: Base2K(sh.b_key),
                    k: TorusPrecision(sh.k_key),
                    rank: Rank(rank),
                    dnum: Dnum(sh.dnum()),
                    dsize: Dsize(sh.dsize),
                }
            }

            fn tsk_layout(sh: &Shape, rank: u32) -> GGLWEToGGSWKeyLayout {
                GGLWEToGGSWKeyLayout {
                    n: Degree(sh.n),
                    base2k: Base2K(sh.b_key),
                    k: TorusPrecision(sh.k_key),
                    rank: Rank(rank),
                    dnum: Dnum(sh.dnum()),
                    dsize: Dsize(sh.dsize),
                }
            }

            fn ggsw_key_layout(sh: &Shape, rank: u32) -> GGSWLayout {
                GGSWLayout {
                    n: Degree(sh.n),
                    base2k: Base2K(sh.b_key),
                    k: TorusPrecision(sh.k_key),
                    rank: Rank(rank),
                    dnum: Dnum(sh.dnum()),
                    dsize: Dsize(sh.dsize),
                }
            }

            /// An automorphism key for Galois element `p`, encrypted for real (the element matters).
            fn atk_real(
                c: &Ctx,
                sh: &Shape,
                rank: u32,
                p: i64,
                big: &mut ScratchOwned<BE>,
            ) -> GLWEAutomorphismKey<Vec<u8>> {
                let infos = atk_layout(sh, rank);
                let mut atk: GLWEAutomorphismKey<Vec<u8>> = GLWEAutomorphismKey::alloc_from_infos(&infos);
                let enc = EncryptionLayout::new_from_default_sigma(infos).unwrap();
                let (s0, _) = skp(c, rank, sh.seed);
                c.module
                    .glwe_automorphism_key_encrypt_sk(&mut atk, p, &s0, &enc, &mut src(sh.seed, 3), &mut src(sh.seed, 4), big.borrow());
                atk
            }

            #[allow(unused_variables)]
            pub fn core_op3(op: &str, sh: &Shape, w: &Window) -> Option<RunResult> {
                if !OPS3.contains(&op) {
                    return None;
                }
                let c = ctx(sh.n, 1);
                let m = &c.module;
                let mut big: ScratchOwned<BE> = ScratchOwned::alloc(1 << 22);
                let r = match op {
                    "gglwe_keyswitch" | "gglwe_keyswitch_assign" => {
                        let r0 = 1 + (sh.extra & 1);
                        // in place: the key maps rank_out -> rank_out
                        let ksk_infos = ksk_layout(sh, if op == "gglwe_keyswitch" { sh.rank_in } else { sh.rank_out }, sh.rank_out);
                        let mut ksk: GLWESwitchingKey<Vec<u8>> = GLWESwitchingKey::alloc_from_infos(&ksk_infos);
                        ksk.fill_uniform(sh.b_key as usize, &mut src(sh.seed, 2));
                        let mut kp = m.glwe_switching_key_prepared_alloc_from_infos(&ksk);
                        m.glwe_switching_key_prepare(&mut kp, &ksk, big.borrow());
                        let (k_a, size_a, dnum_a) = gadget_ct(sh.b_in, sh.k_in, sh.extra >> 1);
                        if op == "gglwe_keyswitch" {
                            let a_infos = GGLWELayout {
                                n: Degree(sh.n),
                                base2k: Base2K(sh.b_in),
                                k: TorusPrecision(k_a),
                                rank_in: Rank(r0),
                                rank_out: Rank(sh.rank_in),
                                dnum: Dnum(dnum_a),
                                dsize: Dsize(1),
                            };
                            let (k_r, size_r, _) = gadget_ct(sh.b_in, sh.k_res, 0);
                            let res_infos = GGLWELayout {
                                n: Degree(sh.n),
                                base2k: Base2K(sh.b_in),
                                k: TorusPrecision(k_r),
                                rank_in: Rank(r0),
                                rank_out: Rank(sh.rank_out),
                                dnum: Dnum(dnum_a.min(size_r)),
                                dsize: Dsize(1),
                            };
                            let mut a: GGLWE<Vec<u8>> = GGLWE::alloc_from_infos(&a_infos);
                            a.fill_uniform(sh.b_in as usize, &mut src(sh.seed, 6));
                            let mut res: GGLWE<Vec<u8>> = GGLWE::alloc_from_infos(&res_infos);
                            let declared = m.gglwe_keyswitch_tmp_bytes(&res_infos, &a_infos, &ksk_infos);
                            let r = windowed(declared, w, &mut |s| m.gglwe_keyswitch(&mut res, &a, &kp, s));
                            finish(r, declared, vec![ser(&res)])
                        } else {
                            let io = GGLWELayout {
                                n: Degree(sh.n),
                                base2k: Base2K(sh.b_in),
                                k: TorusPrecision(k_a),
                                rank_in: Rank(r0),
                                rank_out: Rank(sh.rank_out),
                                dnum: Dnum(dnum_a),
                                dsize: Dsize(1),
                            };
                            let mut res: GGLWE<Vec<u8>> = GGLWE::alloc_from_infos(&io);
                            res.fill_uniform(sh.b_in as usize, &mut src(sh.seed, 6));
                            let declared = m.gglwe_keyswitch_tmp_bytes(&io, &io, &ksk_infos);
                            let r = windowed(declared, w, &mut |s| m.gglwe_keyswitch_assign(&mut res, &kp, s));
                            finish(r, declared, vec![ser(&res)])
                        }
                    }
                    "gglwe_external_product"
                    | "gglwe_external_product_assign"
                    | "ggsw_external_product"
                    | "ggsw_external_product_assign" => {
                        let rank = sh.rank_out;
                        let r0 = 1 + (sh.extra & 1);
                        let ggsw_infos = ggsw_key_layout(sh, rank);
                        let mut ggsw: GGSW<Vec<u8>> = GGSW::alloc_from_infos(&ggsw_infos);
                        ggsw.fill_uniform(sh.b_key as usize, &mut src(sh.seed, 2));
                        let mut gp = m.ggsw_prepared_alloc_from_infos(&ggsw);
                        m.ggsw_prepare(&mut gp, &ggsw, big.borrow());
                        let (k_a, size_a, dnum_a) = gadget_ct(sh.b_in, sh.k_in, sh.extra >> 1);
                        let (k_r, size_r, dnum_r) = gadget_ct(sh.b_in, sh.k_res, sh.extra >> 2);
                        if op.starts_with("gglwe") {
                            let a_infos = GGLWELayout {
                                n: Degree(sh.n),
                                base2k: Base2K(sh.b_in),
                                k: TorusPrecision(k_a),
                                rank_in: Rank(r0),
                                rank_out: Rank(rank),
                                dnum: Dnum(dnum_a),
                                dsize: Dsize(1),
                            };
                            let res_infos = GGLWELayout {
                                n: Degree(sh.n),
                                base2k: Base2K(sh.b_in),
                                k: TorusPrecision(k_r),
                                rank_in: Rank(r0),
                                rank_out: Rank(rank),
                                // (the op indexes rows of `a` up to res.dnum: more rows than `a` has is not admissible)
                                dnum: Dnum(dnum_r.min(dnum_a)),
                                dsize: Dsize(1),
                            };
                            let mut a: GGLWE<Vec<u8>> = GGLWE::alloc_from_infos(&a_infos);
                            a.fill_uniform(sh.b_in as usize, &mut src(sh.seed, 6));
                            if op == "gglwe_external_product" {
                                let mut res: GGLWE<Vec<u8>> = GGLWE::alloc_from_infos(&res_infos);
                                let declared = m.gglwe_external_product_tmp_bytes(&res_infos, &a_infos, &ggsw_infos);
                                let r = windowed(declared, w, &mut |s| m.gglwe_external_product(&mut res, &a, &gp, s));
                                finish(r, declared, vec![ser(&res)])
                            } else {
                                let declared = m.gglwe_external_product_tmp_bytes(&a_infos, &a_infos, &ggsw_infos);
                                let r = windowed(declared, w, &mut |s| m.gglwe_external_product_assign(&mut a, &gp, s));
                                finish(r, declared, vec![ser(&a)])
                            }
                        } else {
                            let a_infos = GGSWLayout {
                                n: Degree(sh.n),
                                base2k: Base2K(sh.b_in),
                                k: TorusPrecision(k_a),
                                rank: Rank(rank),
                                dnum: Dnum(dnum_a),
                                dsize: Dsize(1),
                            };
                            let res_infos = GGSWLayout {
                                n: Degree(sh.n),
                                base2k: Base2K(sh.b_in),
                                k: TorusPrecision(k_r),
                                rank: Rank(rank),
                                dnum: Dnum(dnum_r),
                                dsize: Dsize(1),
                            };
                            let mut a: GGSW<Vec<u8>> = GGSW::alloc_from_infos(&a_infos);
                            a.fill_uniform(sh.b_in as usize, &mut src(sh.seed, 6));
                            if op == "ggsw_external_product" {
                                let mut res: GGSW<Vec<u8>> = GGSW::alloc_from_infos(&res_infos);
                                let declared = m.ggsw_external_product_tmp_bytes(&res_infos, &a_infos, &ggsw_infos);
                                let r = windowed(declared, w, &mut |s| m.ggsw_external_product(&mut res, &a, &gp, s));
                                finish(r, declared, vec![ser(&res)])
                            } else {
                                let declared = m.ggsw_external_product_tmp_bytes(&a_infos, &a_infos, &ggsw_infos);
                                let r = windowed(declared, w, &mut |s| m.ggsw_external_product_assign(&mut a, &gp, s));
                                finish(r, declared, vec![ser(&a)])
                            }
                        }
                    }
                    "ggsw_keyswitch" | "ggsw_keyswitch_assign" | "ggsw_automorphism" | "ggsw_automorphism_assign" => {
                        let rank = sh.rank_out;
                        let tsk_infos = tsk_layout(sh, rank);
                        let mut tsk: GGLWEToGGSWKey<Vec<u8>> = GGLWEToGGSWKey::alloc_from_infos(&tsk_infos);
                        tsk.fill_uniform(sh.b_key as usize, &mut src(sh.seed, 7));
                        let mut tp = m.gglwe_to_ggsw_key_prepared_alloc_from_infos(&tsk);
                        m.gglwe_to_ggsw_key_prepare(&mut tp, &tsk, big.borrow());
                        let (k_a, size_a, dnum_a) = gadget_ct(sh.b_in, sh.k_in, sh.extra);
                        let (k_r, size_r, _) = gadget_ct(sh.b_in, sh.k_res, 0);
                        let a_infos = GGSWLayout {
                            n: Degree(sh.n),
                            base2k: Base2K(sh.b_in),
                            k: TorusPrecision(k_a),
                            rank: Rank(rank),
                            dnum: Dnum(dnum_a),
                            dsize: Dsize(1),
                        };
                        let res_infos = GGSWLayout {
                            n: Degree(sh.n),
                            base2k: Base2K(sh.b_in),
                            k: TorusPrecision(k_r),
                            rank: Rank(rank),
                            dnum: Dnum(dnum_a.min(size_r)),
                            dsize: Dsize(1),
                        };
                        let mut a: GGSW<Vec<u8>> = GGSW::alloc_from_infos(&a_infos);
                        a.fill_uniform(sh.b_in as usize, &mut src(sh.seed, 6));
                        let mut res: GGSW<Vec<u8>> = GGSW::alloc_from_infos(&res_infos);
                        if op.starts_with("ggsw_keyswitch") {
                            let ksk_infos = ksk_layout(sh, rank, rank);
                            let mut ksk: GLWESwitchingKey<Vec<u8>> = GLWESwitchingKey::alloc_from_infos(&ksk_infos);
                            ksk.fill_uniform(sh.b_key as usize, &mut src(sh.seed, 2));
                            let mut kp = m.glwe_switching_key_prepared_alloc_from_infos(&ksk);
                            m.glwe_switching_key_prepare(&mut kp, &ksk, big.borrow());
                            if op == "ggsw_keyswitch" {
                                let declared = m.ggsw_keyswitch_tmp_bytes(&res_infos, &a_infos, &ksk_infos, &tsk_infos);
                                let r = windowed(declared, w, &mut |s| m.ggsw_keyswitch(&mut res, &a, &kp, &tp, s));
                                finish(r, declared, vec![ser(&res)])
                            } else {
                                let declared = m.ggsw_keyswitch_tmp_bytes(&a_infos, &a_infos, &ksk_infos, &tsk_infos);
                                let r = windowed(declared, w, &mut |s| m.ggsw_keyswitch_assign(&mut a, &kp, &tp, s));
                                finish(r, declared, vec![ser(&a)])
                            }
                        } else {
                            let atk_infos = atk_layout(sh, rank);
                            let atk = atk_real(c, sh, rank, 5, &mut big);
                            let mut ap = m.glwe_automorphism_key_prepared_alloc_from_infos(&atk);
                            m.glwe_automorphism_key_prepare(&mut ap, &atk, big.borrow());
                            if op == "ggsw_automorphism" {
                                let declared = m.ggsw_automorphism_tmp_bytes(&res_infos, &a_infos, &atk_infos, &tsk_infos);
                                let r = windowed(declared, w, &mut |s| m.ggsw_automorphism(&mut res, &a, &ap, &tp, s));
                                finish(r, declared, vec![ser(&res)])
                            } else {
                                let declared = m.ggsw_automorphism_tmp_bytes(&a_infos, &a_infos, &atk_infos, &tsk_infos);
                                let r = windowed(declared, w, &mut |s| m.ggsw_automorphism_assign(&mut a, &ap, &tp, s));
                                finish(r, declared, vec![ser(&a)])
                            }
                        }
                    }
                    "glwe_automorphism_key_automorphism" | "glwe_automorphism_key_automorphism_assign" => {
                        let rank = sh.rank_out;
                        let atk_infos = atk_layout(sh, rank);
                        let atk = atk_real(c, sh, rank, 5, &mut big);
                        let mut ap = m.glwe_automorphism_key_prepared_alloc_from_infos(&atk);
                        m.glwe_automorphism_key_prepare(&mut ap, &atk, big.borrow());
                        // the key being transformed: radix b_in
                        let (k_a, size_a, dnum_a) = gadget_ct(sh.b_in, sh.k_in, sh.extra);
                        let (k_r, size_r, _) = gadget_ct(sh.b_in, sh.k_res, 0);
                        let a_infos = GLWEAutomorphismKeyLayout {
                            n: Degree(sh.n),
                            base2k: Base2K(sh.b_in),
                            k: TorusPrecision(k_a),
                            rank: Rank(rank),
                            dnum: Dnum(dnum_a),
                            dsize: Dsize(1),
                        };
                        let res_infos = GLWEAutomorphismKeyLayout {
                            n: Degree(sh.n),
                            base2k: Base2K(sh.b_in),
                            k: TorusPrecision(k_r),
                            rank: Rank(rank),
                            dnum: Dnum(dnum_a.min(size_r)),
                            dsize: Dsize(1),
                        };
                        let mut a: GLWEAutomorphismKey<Vec<u8>> = GLWEAutomorphismKey::alloc_from_infos(&a_infos);
                        {
                            let enc = EncryptionLayout::new_from_default_sigma(a_infos).unwrap();
                            let (s0, _) = skp(c, rank, sh.seed);
                            m.glwe_automorphism_key_encrypt_sk(&mut a, 3, &s0, &enc, &mut src(sh.seed, 8), &mut src(sh.seed, 9), big.borrow());
                        }
                        if op == "glwe_automorphism_key_automorphism" {
                            let mut res: GLWEAutomorphismKey<Vec<u8>> = GLWEAutomorphismKey::alloc_from_infos(&res_infos);
                            let declared = m.glwe_automorphism_key_automorphism_tmp_bytes(&res_infos, &a_infos, &atk_infos);
                            let r = windowed(declared, w, &mut |s| m.glwe_automorphism_key_automorphism(&mut res, &a, &ap, s));
                            finish(r, declared, vec![ser(&res)])
                        } else {
                            let declared = m.glwe_automorphism_key_automorphism_tmp_bytes(&a_infos, &a_infos, &atk_infos);
                            let r = windowed(declared, w, &mut |s| m.glwe_automorphism_key_automorphism_assign(&mut a, &ap, s));
                            finish(r, declared, vec![ser(&a)])
                        }
                    }
                    "glwe_automorphism_assign"
                    | "glwe_automorphism_add"
                    | "glwe_automorphism_add_assign"
                    | "glwe_automorphism_sub"
                    | "glwe_automorphism_sub_negate"
                    | "glwe_automorphism_sub_assign"
                    | "glwe_automorphism_sub_negate_assign" => {
                        let rank = sh.rank_out;
                        let in_infos = gl(sh.n, sh.b_in, sh.k_in, rank);
                        let out_infos = gl(sh.n, sh.b_res, sh.k_res, rank);
                        let atk_infos = atk_layout(sh, rank);
                        let atk = atk_real(c, sh, rank, 5, &mut big);
                        let mut ap = m.glwe_automorphism_key_prepared_alloc_from_infos(&atk);
                        m.glwe_automorphism_key_prepare(&mut ap, &atk, big.borrow());
                        let mut a: GLWE<Vec<u8>> = GLWE::alloc_from_infos(&in_infos);
                        a.fill_uniform(sh.b_in as usize, &mut src(sh.seed, 6));
                        if op.ends_with("_assign") {
                            let declared = m.glwe_automorphism_tmp_bytes(&in_infos, &in_infos, &atk_infos);
                            let r = match op {
                                "glwe_automorphism_assign" => windowed(declared, w, &mut |s| m.glwe_automorphism_assign(&mut a, &ap, s)),
                                "glwe_automorphism_add_assign" => {
                                    windowed(declared, w, &mut |s| m.glwe_automorphism_add_assign(&mut a, &ap, s))
                                }
                                "glwe_automorphism_sub_assign" => {
                                    windowed(declared, w, &mut |s| m.glwe_automorphism_sub_assign(&mut a, &ap, s))
                                }
                                _ => windowed(declared, w, &mut |s| m.glwe_automorphism_sub_negate_assign(&mut a, &ap, s)),
                            };
                            finish(r, declared, vec![a.data().data.clone()])
                        } else {
                            // accumulating variants: the receiver holds data already
                            let mut res: GLWE<Vec<u8>> = GLWE::alloc_from_infos(&out_infos);
                            res.fill_uniform(sh.b_res as usize, &mut src(sh.seed, 7));
                            let declared = m.glwe_automorphism_tmp_bytes(&out_infos, &in_infos, &atk_infos);
                            let r = match op {
                                "glwe_automorphism_add" => windowed(declared, w, &mut |s| m.glwe_automorphism_add(&mut res, &a, &ap, s)),
                                "glwe_automorphism_sub" => windowed(declared, w, &mut |s| m.glwe_automorphism_sub(&mut res, &a, &ap, s)),
                                _ => windowed(declared, w, &mut |s| m.glwe_automorphism_sub_negate(&mut res, &a, &ap, s)),
                            };
                            finish(r, declared, vec![res.data().data.clone()])
                        }
                    }
                    _ => return core_op3_b(op, sh, w),
                };
                Some(r)
            }

            /// LWE side: conversions, LWE key switching, LWE encryption / decryption, and the evaluation-key generators.
            fn core_op3_b(op: &str, sh: &Shape, w: &Window) -> Option<RunResult> {
                use poulpy_core::layouts::{
                    GLWEToLWEKey, GLWEToLWEKeyPreparedFactory, LWE, LWELayout, LWEPlaintext, LWESwitchingKey, LWESwitchingKeyLayout,
                    LWESwitchingKeyPreparedFactory, LWEToGLWEKey, LWEToGLWEKeyLayout, LWEToGLWEKeyPreparedFactory,
                };
                use poulpy_core::{
                    GGLWEEncryptSk, GGLWEToGGSWKeyEncryptSk, GGSWExpandRows, GGSWFromGGLWE, GLWEFromLWE, GLWEToLWESwitchingKeyEncryptSk,
                    LWEDecrypt, LWEEncryptSk, LWEFromGLWE, LWEKeySwitch, LWEToGLWESwitchingKeyEncryptSk,
                };
                let c = ctx(sh.n, 1);
                let m = &c.module;
                let mut big: ScratchOwned<BE> = ScratchOwned::alloc(1 << 22);
                // LWE-side keys have dsize 1: rows cover the input
                let dnum1 = sh.k_in.div_ceil(sh.b_key).max(1);
                let n_lwe = sh.n_lwe.min(sh.n).max(1);
                let r = match op {
                    "lwe_keyswitch" | "lwe_switching_key_prepare" => {
                        let n_out = ((sh.n_lwe + 1 + sh.extra) % sh.n).max(1);
                        let key_infos = LWESwitchingKeyLayout {
                            n: Degree(sh.n),
                            base2k: Base2K(sh.b_key),
                            k: TorusPrecision(sh.k_key),
                            dnum: Dnum(dnum1),
                        };
                        let mut key: LWESwitchingKey<Vec<u8>> = LWESwitchingKey::alloc_from_infos(&key_infos);
                        key.fill_uniform(sh.b_key as usize, &mut src(sh.seed, 2));
                        let mut kp = m.lwe_switching_key_prepared_alloc_from_infos(&key);
                        let a_infos = LWELayout {
                            n: Degree(n_lwe),
                            k: TorusPrecision(sh.k_in),
                            base2k: Base2K(sh.b_in),
                        };
                        let res_infos = LWELayout {
                            n: Degree(n_out),
                            k: TorusPrecision(sh.k_res),
                            base2k: Base2K(sh.b_res),
                        };
                        let mut a: LWE<Vec<u8>> = LWE::alloc_from_infos(&a_infos);
                        a.fill_uniform(sh.b_in as usize, &mut src(sh.seed, 6));
                        let mut res: LWE<Vec<u8>> = LWE::alloc_from_infos(&res_infos);
                        if op == "lwe_switching_key_prepare" {
                            let declared = m.lwe_switching_key_prepare_tmp_bytes(&key);
                            let r = windowed(declared, w, &mut |s| m.lwe_switching_key_prepare(&mut kp, &key, s));
                            if r.0.is_ok() {
                                m.lwe_keyswitch(&mut res, &a, &kp, big.borrow());
                            }
                            return Some(finish(r, declared, vec![ser(&res)]));
                        }
                        m.lwe_switching_key_prepare(&mut kp, &key, big.borrow());
                        let declared = m.lwe_keyswitch_tmp_bytes(&res_infos, &a_infos, &key_infos);
                        let r = windowed(declared, w, &mut |s| m.lwe_keyswitch(&mut res, &a, &kp, s));
                        finish(r, declared, vec![ser(&res)])
                    }
                    "glwe_from_lwe" | "lwe_to_glwe_key_prepare" | "lwe_to_glwe_key_encrypt_sk" => {
                        let key_infos = LWEToGLWEKeyLayout {
                            n: Degree(sh.n),
                            base2k: Base2K(sh.b_key),
                            k: TorusPrecision(sh.k_key),
                            rank_out: Rank(sh.rank_out),
                            dnum: Dnum(dnum1),
                        };
                        let mut key: LWEToGLWEKey<Vec<u8>> = LWEToGLWEKey::alloc_from_infos(&key_infos);
                        if op == "lwe_to_glwe_key_encrypt_sk" {
                            let enc = EncryptionLayout::new_from_default_sigma(key_infos).unwrap();
                            let mut s_lwe: LWESecret<Vec<u8>> = LWESecret::alloc(Degree(n_lwe));
                            s_lwe.fill_binary_prob(0.5, &mut src(sh.seed, 1));
                            let (_s, sp) = skp(c, sh.rank_out, sh.seed);
                            let declared = m.lwe_to_glwe_key_encrypt_sk_tmp_bytes(&key_infos);
                            let r = windowed(declared, w, &mut |s| {
                                m.lwe_to_glwe_key_encrypt_sk(&mut key, &s_lwe, &sp, &enc, &mut src(sh.seed, 3), &mut src(sh.seed, 4), s)
                            });
                            return Some(finish(r, declared, vec![ser(&key)]));
                        }
                        key.fill_uniform(sh.b_key as usize, &mut src(sh.seed, 2));
                        let mut kp = m.lwe_to_glwe_key_prepared_alloc_from_infos(&key);
                        let a_infos = LWELayout {
                            n: Degree(n_lwe),
                            k: TorusPrecision(sh.k_in),
                            base2k: Base2K(sh.b_in),
                        };
                        let res_infos = gl(sh.n, sh.b_res, sh.k_res, sh.rank_out);
                        let mut a: LWE<Vec<u8>> = LWE::alloc_from_infos(&a_infos);
                        a.fill_uniform(sh.b_in as usize, &mut src(sh.seed, 6));
                        let mut res: GLWE<Vec<u8>> = GLWE::alloc_from_infos(&res_infos);
                        if op == "lwe_to_glwe_key_prepare" {
                            let declared = m.lwe_to_glwe_key_prepare_tmp_bytes(&key);
                            let r = windowed(declared, w, &mut |s| m.lwe_to_glwe_key_prepare(&mut kp, &key, s));
                            if r.0.is_ok() {
                                m.glwe_from_lwe(&mut res, &a, &kp, big.borrow());
                            }
                            return Some(finish(r, declared, vec![res.data().data.clone()]));
                        }
                        m.lwe_to_glwe_key_prepare(&mut kp, &key, big.borrow());
                        let declared = m.glwe_from_lwe_tmp_bytes(&res_infos, &a_infos, &key_infos);
                        let r = windowed(declared, w, &mut |s| m.glwe_from_lwe(&mut res, &a, &kp, s));
                        finish(r, declared, vec![res.data().data.clone()])
                    }
                    "lwe_from_glwe" | "lwe_from_glwe_idx0" | "glwe_to_lwe_key_prepare" | "glwe_to_lwe_key_encrypt_sk" => {
                        let key_infos = GLWEToLWEKeyLayout {
                            n: Degree(sh.n),
                            base2k: Base2K(sh.b_key),
                            k: TorusPrecision(sh.k_key),
                            rank_in: Rank(sh.rank_in),
                            dnum: Dnum(dnum1),
                        };
                        let mut key: GLWEToLWEKey<Vec<u8>> = GLWEToLWEKey::alloc_from_infos(&key_infos);
                        if op == "glwe_to_lwe_key_encrypt_sk" {
                            let enc = EncryptionLayout::new_from_default_sigma(key_infos).unwrap();
                            let mut s_lwe: LWESecret<Vec<u8>> = LWESecret::alloc(Degree(n_lwe));
                            s_lwe.fill_binary_prob(0.5, &mut src(sh.seed, 1));
                            let (sg, _) = skp(c, sh.rank_in, sh.seed);
                            let declared = m.glwe_to_lwe_key_encrypt_sk_tmp_bytes(&key_infos);
                            let r = windowed(declared, w, &mut |s| {
                                m.glwe_to_lwe_key_encrypt_sk(&mut key, &s_lwe, &sg, &enc, &mut src(sh.seed, 3), &mut src(sh.seed, 4), s)
                            });
                            return Some(finish(r, declared, vec![ser(&key)]));
                        }
                        key.fill_uniform(sh.b_key as usize, &mut src(sh.seed, 2));
                        let mut kp = m.glwe_to_lwe_key_prepared_alloc_from_infos(&key);
                        let a_infos = gl(sh.n, sh.b_in, sh.k_in, sh.rank_in);
                        let res_infos = LWELayout {
                            n: Degree(n_lwe),
                            k: TorusPrecision(sh.k_res),
                            base2k: Base2K(sh.b_res),
                        };
                        let mut a: GLWE<Vec<u8>> = GLWE::alloc_from_infos(&a_infos);
                        a.fill_uniform(sh.b_in as usize, &mut src(sh.seed, 6));
                        let mut res: LWE<Vec<u8>> = LWE::alloc_from_infos(&res_infos);
                        let idx = if op == "lwe_from_glwe_idx0" { 0 } else { 1 + (sh.extra as usize % (sh.n as usize - 1)) };
                        if op == "glwe_to_lwe_key_prepare" {
                            let declared = m.glwe_to_lwe_key_prepare_tmp_bytes(&key);
                            let r = windowed(declared, w, &mut |s| m.glwe_to_lwe_key_prepare(&mut kp, &key, s));
                            if r.0.is_ok() {
                                m.lwe_from_glwe(&mut res, &a, idx, &kp, big.borrow());
                            }
                            return Some(finish(r, declared, vec![ser(&res)]));
                        }
                        m.glwe_to_lwe_key_prepare(&mut kp, &key, big.borrow());
                        let declared = m.lwe_from_glwe_tmp_bytes(&res_infos, &a_infos, &key_infos);
                        let r = windowed(declared, w, &mut |s| m.lwe_from_glwe(&mut res, &a, idx, &kp, s));
                        finish(r, declared, vec![ser(&res)])
                    }
                    "ggsw_from_gglwe" | "ggsw_expand_row" | "gglwe_to_ggsw_key_prepare" | "gglwe_to_ggsw_key_encrypt_sk" => {
                        let rank = sh.rank_out;
                        let tsk_infos = tsk_layout(sh, rank);
                        let mut tsk: GGLWEToGGSWKey<Vec<u8>> = GGLWEToGGSWKey::alloc_from_infos(&tsk_infos);
                        if op == "gglwe_to_ggsw_key_encrypt_sk" {
                            let enc = EncryptionLayout::new_from_default_sigma(tsk_infos).unwrap();
                            let (s0, _) = skp(c, rank, sh.seed);
                            let declared = m.gglwe_to_ggsw_key_encrypt_sk_tmp_bytes(&tsk_infos);
                            let r = windowed(declared, w, &mut |s| {
                                m.gglwe_to_ggsw_key_encrypt_sk(&mut tsk, &s0, &enc, &mut src(sh.seed, 3), &mut src(sh.seed, 4), s)
                            });
                            return Some(finish(r, declared, vec![ser(&tsk)]));
                        }
                        tsk.fill_uniform(sh.b_key as usize, &mut src(sh.seed, 7));
                        let mut tp = m.gglwe_to_ggsw_key_prepared_alloc_from_infos(&tsk);
                        let (k_r, size_r, dnum_r) = gadget_ct(sh.b_res, sh.k_res, sh.extra);
                        let res_infos = GGSWLayout {
                            n: Degree(sh.n),
                            base2k: Base2K(sh.b_res),
                            k: TorusPrecision(k_r),
                            rank: Rank(rank),
                            dnum: Dnum(dnum_r),
                            dsize: Dsize(1),
                        };
                        let a_infos = GGLWELayout {
                            n: Degree(sh.n),
                            base2k: Base2K(sh.b_res),
                            k: TorusPrecision(k_r),
                            rank_in: Rank(1),
                            rank_out: Rank(rank),
                            dnum: Dnum(dnum_r),
                            dsize: Dsize(1),
                        };
                        let mut a: GGLWE<Vec<u8>> = GGLWE::alloc_from_infos(&a_infos);
                        a.fill_uniform(sh.b_res as usize, &mut src(sh.seed, 6));
                        let mut res: GGSW<Vec<u8>> = GGSW::alloc_from_infos(&res_infos);
                        if op == "gglwe_to_ggsw_key_prepare" {
                            let declared = m.gglwe_to_ggsw_key_prepare_tmp_bytes(&tsk);
                            let r = windowed(declared, w, &mut |s| m.gglwe_to_ggsw_key_prepare(&mut tp, &tsk, s));
                            if r.0.is_ok() {
                                m.ggsw_from_gglwe(&mut res, &a, &tp, big.borrow());
                            }
                            return Some(finish(r, declared, vec![ser(&res)]));
                        }
                        m.gglwe_to_ggsw_key_prepare(&mut tp, &tsk, big.borrow());
                        if op == "ggsw_from_gglwe" {
                            let declared = m.ggsw_from_gglwe_tmp_bytes(&res_infos, &tsk_infos);
                            let r = windowed(declared, w, &mut |s| m.ggsw_from_gglwe(&mut res, &a, &tp, s));
                            finish(r, declared, vec![ser(&res)])
                        } else {
                            res.fill_uniform(sh.b_res as usize, &mut src(sh.seed, 8));
                            let declared = m.ggsw_expand_rows_tmp_bytes(&res_infos, &tsk_infos);
                            let r = windowed(declared, w, &mut |s| m.ggsw_expand_row(&mut res, &tp, s));
                            finish(r, declared, vec![ser(&res)])
                        }
                    }
                    "lwe_encrypt_sk" | "lwe_decrypt" => {
                        let infos = LWELayout {
                            n: Degree(n_lwe),
                            k: TorusPrecision(sh.k_res),
                            base2k: Base2K(sh.b_res),
                        };
                        let mut s_lwe: LWESecret<Vec<u8>> = LWESecret::alloc(Degree(n_lwe));
                        s_lwe.fill_binary_prob(0.5, &mut src(sh.seed, 1));
                        let mut pt: LWEPlaintext<Vec<u8>> = LWEPlaintext::alloc_from_infos(&infos);
                        let mut ct: LWE<Vec<u8>> = LWE::alloc_from_infos(&infos);
                        if op == "lwe_encrypt_sk" {
                            pt.data_mut().fill_uniform(sh.b_res as usize, &mut src(sh.seed, 2));
                            let enc = EncryptionLayout::new_from_default_sigma(infos).unwrap();
                            let declared = m.lwe_encrypt_sk_tmp_bytes(&infos);
                            let r = windowed(declared, w, &mut |s| {
                                m.lwe_encrypt_sk(&mut ct, &pt, &s_lwe, &enc, &mut src(sh.seed, 3), &mut src(sh.seed, 4), s)
                            });
                            finish(r, declared, vec![ser(&ct)])
                        } else {
                            ct.fill_uniform(sh.b_res as usize, &mut src(sh.seed, 2));
                            let declared = m.lwe_decrypt_tmp_bytes(&infos);
                            let r = windowed(declared, w, &mut |s| m.lwe_decrypt(&ct, &mut pt, &s_lwe, s));
                            finish(r, declared, vec![pt.data().data.clone()])
                        }
                    }
                    "gglwe_encrypt_sk" => {
                        let infos = GGLWELayout {
                            n: Degree(sh.n),
                            base2k: Base2K(sh.b_key),
                            k: TorusPrecision(sh.k_key),
                            rank_in: Rank(sh.rank_in),
                            rank_out: Rank(sh.rank_out),
                            dnum: Dnum(sh.dnum()),
                            dsize: Dsize(sh.dsize),
                        };
                        let enc = EncryptionLayout::new_from_default_sigma(infos).unwrap();
                        let (_s, sp) = skp(c, sh.rank_out, sh.seed);
                        let mut pt: poulpy_hal::layouts::ScalarZnx<Vec<u8>> =
                            poulpy_hal::layouts::ScalarZnx::alloc(sh.n as usize, sh.rank_in as usize);
                        pt.fill_uniform(3, &mut src(sh.seed, 2));
                        let mut ct: GGLWE<Vec<u8>> = GGLWE::alloc_from_infos(&infos);
                        let declared = m.gglwe_encrypt_sk_tmp_bytes(&infos);
                        let r = windowed(declared, w, &mut |s| {
                            m.gglwe_encrypt_sk(&mut ct, &pt, &sp, &enc, &mut src(sh.seed, 3), &mut src(sh.seed, 4), s)
                        });
                        finish(r, declared, vec![ser(&ct)])
                    }
                    "glwe_automorphism_key_encrypt_sk" | "glwe_automorphism_key_prepare" => {
                        let rank = sh.rank_out;
                        let infos = atk_layout(sh, rank);
                        let p: i64 = [5i64, -1, 3, 25][(sh.extra % 4) as usize];
                        if op == "glwe_automorphism_key_encrypt_sk" {
                            let mut atk: GLWEAutomorphismKey<Vec<u8>> = GLWEAutomorphismKey::alloc_from_infos(&infos);
                            let enc = EncryptionLayout::new_from_default_sigma(infos).unwrap();
                            let (s0, _) = skp(c, rank, sh.seed);
                            let declared = m.glwe_automorphism_key_encrypt_sk_tmp_bytes(&infos);
                            let r = windowed(declared, w, &mut |s| {
                                m.glwe_automorphism_key_encrypt_sk(&mut atk, p, &s0, &enc, &mut src(sh.seed, 3), &mut src(sh.seed, 4), s)
                            });
                            finish(r, declared, vec![ser(&atk)])
                        } else {
                            let atk = atk_real(c, sh, rank, p, &mut big);
                            let mut ap = m.glwe_automorphism_key_prepared_alloc_from_infos(&atk);
                            let declared = m.glwe_automorphism_key_prepare_tmp_bytes(&atk);
                            let r = windowed(declared, w, &mut |s| m.glwe_automorphism_key_prepare(&mut ap, &atk, s));
                            let in_infos = gl(sh.n, sh.b_in, sh.k_in, rank);
                            let mut a: GLWE<Vec<u8>> = GLWE::alloc_from_infos(&in_infos);
                            a.fill_uniform(sh.b_in as usize, &mut src(sh.seed, 6));
                            let mut res: GLWE<Vec<u8>> = GLWE::alloc_from_infos(&gl(sh.n, sh.b_res, sh.k_res, rank));
                            if r.0.is_ok() {
                                m.glwe_automorphism(&mut res, &a, &ap, big.borrow());
                            }
                            finish(r, declared, vec![res.data().data.clone()])
                        }
                    }
                    "gglwe_prepare" => {
                        let infos = GGLWELayout {
                            n: Degree(sh.n),
                            base2k: Base2K(sh.b_key),
                            k: TorusPrecision(sh.k_key),
                            rank_in: Rank(sh.rank_in),
                            rank_out: Rank(sh.rank_out),
                            dnum: Dnum(sh.dnum()),
                            dsize: Dsize(sh.dsize),
                        };
                        let mut key: GGLWE<Vec<u8>> = GGLWE::alloc_from_infos(&infos);
                        key.fill_uniform(sh.b_key as usize, &mut src(sh.seed, 2));
                        let mut kp = m.gglwe_prepared_alloc_from_infos(&infos);
                        let declared = m.gglwe_prepare_tmp_bytes(&infos);
                        let r = windowed(declared, w, &mut |s| m.gglwe_prepare(&mut kp, &key, s));
                        // observe through a key switch with generous scratch
                        let mut a: GLWE<Vec<u8>> = GLWE::alloc_from_infos(&gl(sh.n, sh.b_in, sh.k_in, sh.rank_in));
                        a.fill_uniform(sh.b_in as usize, &mut src(sh.seed, 6));
                        let mut res: GLWE<Vec<u8>> = GLWE::alloc_from_infos(&gl(sh.n, sh.b_res, sh.k_res, sh.rank_out));
                        if r.0.is_ok() {
                            use poulpy_core::GLWEKeyswitch;
                            m.glwe_keyswitch(&mut res, &a, &kp, big.borrow());
                        }
                        finish(r, declared, vec![res.data().data.clone()])
                    }
                    _ => return None,
                };
                Some(r)
            }
        }
    };
}
pub(crate) use core_ops3_impl;
