//! Third part of the C12 op inventory (same conventions as ops.rs / ops2.rs).
//! Each op: build inputs from the Shape (random contents are fine), ask the library for the
//! declared scratch size, run the call through `windowed`, return the output bytes via `finish`.
macro_rules! core_ops3_impl {
    ($be:ty) => {
        pub mod ops3 {
            #[allow(unused_imports)]
            use super::ops::{finish_pub as finish, src_pub as src, windowed};
            #[allow(unused_imports)]
            use super::*;
            use crate::c12::ops::Shape;

            pub const OPS3: &[&str] = &[];

            #[allow(unused_variables)]
            pub fn core_op3(op: &str, sh: &Shape, w: &Window) -> Option<RunResult> {
                None
            }
        }
    };
}
pub(crate) use core_ops3_impl;
