//! Fifth part of the C12 op inventory (same conventions as ops.rs / ops3.rs): the scratch-taking
//! operations whose size query no other part references.
//! Each op: build inputs from the Shape (random contents are fine), ask the library for the
//! declared scratch size, run the call through `windowed`, return the output bytes via `finish`.
//!
//! * BDD key bundle: `bdd_key_encrypt_sk` / `prepare_bdd_key` (module level or, with `flags & 1`, the
//!   struct-level wrappers `BDDKey::encrypt_sk` / `BDDKeyPrepared::prepare`); the prepared bundle is
//!   observed through one bit of `fhe_uint_prepare_custom` with a generous scratch.
//!   `fhe_uint_prepare_custom_shapes` drives that pipeline itself (the `prep` subject of fhe.rs uses one
//!   fixed bundle): the op limits itself to a per-thread window of `fhe_uint_prepare_tmp_bytes`, so a
//!   budget that misses an inner step panics with any scratch; the set-up runs every stage with ample
//!   scratch first, after which a panic of the reference run is kept as an (output-less) success and the
//!   exact-size run reports it as FIT.
//! * blind rotation: compressed key encryption, and the struct-level wrappers
//!   (`BlindRotationKey::encrypt_sk_tmp_bytes`, `BlindRotationKeyPrepared::{prepare,execute}_tmp_bytes`)
//!   with the struct-level calls they document (`*_via_struct`; ops3.rs drives the module-level forms).
//! * `glwe_packer_add` (all adds and the flush in one window) / `glwe_packer_flush` (flush only).
//! * `GLWEExternalProductInternal` (public trait of `poulpy_core::api`).
//! * the open-extension-point form of the compressed GGLWE-to-GGSW key encryption (the query of that
//!   name; the public API of ops3.rs's op delegates to it).
//! * hal: ring merge / split, in-place rotation and multiplication by X^p - 1. The operands of merge /
//!   split sit in canary-guarded buffers and the columns the call was not asked to write are compared
//!   before / after: a stray write is reported through `canary_ok` (FIT:wrote_outside_window) instead
//!   of corrupting the worker's heap (the AVX ring switch does that for sub-rings of degree < 4).
//! * the generic two-word BDD executor with harness circuits on 8-bit words (the word ops of ops2.rs
//!   reach the same queries only with the fixed 32-bit circuits).
macro_rules! core_ops5_impl {
    ($be:ty) => {
        pub mod ops5 {
            #[allow(unused_imports)]
            use super::ops::{finish_pub as finish, src_pub as src, windowed};
            #[allow(unused_imports)]
            use super::*;
            use crate::c12::ops::{Shape, draw};
            #[allow(unused_imports)]
            use poulpy_core::layouts::{
                GGSW, GGSWPreparedFactory, GLWEAutomorphismKey, GLWEAutomorphismKeyPreparedFactory, GLWESwitchingKeyLayout, LWE,
                LWELayout,
            };
            #[allow(unused_imports)]
            use poulpy_core::{GLWEAutomorphismKeyEncryptSk, GLWEEncryptSk};
            #[allow(unused_imports)]
            use poulpy_hal::layouts::{FillUniform, WriterTo};

            pub const OPS5: &[&str] = &[
                "bdd_key_encrypt_sk",
                "bdd_key_prepare",
                "fhe_uint_prepare_custom_shapes",
                "blind_rotation_key_compressed_encrypt_sk",
                "blind_rotation_key_encrypt_sk_via_struct",
                "blind_rotation_key_prepare_via_struct",
                "blind_rotation_execute_via_struct",
                "gglwe_to_ggsw_key_compressed_encrypt_sk_oep",
                "glwe_external_product_internal",
                "glwe_packer_add",
                "glwe_packer_flush",
                "hal_vec_znx_merge_rings",
                "hal_vec_znx_split_ring",
                "hal_vec_znx_rotate_assign",
                "hal_vec_znx_mul_xp_minus_one_assign",
                "bdd_2w_to_1w_generic",
                "bdd_2w_to_1w_generic_multi_thread",
            ];

            fn gl(n: u32, b: u32, k: u32, rank: u32) -> GLWELayout {
                GLWELayout {
                    n: Degree(n),
                    base2k: Base2K(b),
                    k: TorusPrecision(k),
                    rank: Rank(rank),
                }
            }

            fn skp(c: &Ctx, rank: u32, seed: u64) -> (GLWESecret<Vec<u8>>, GLWESecretPrepared<DeviceBuf<BE>, BE>) {
                let mut s: GLWESecret<Vec<u8>> = GLWESecret::alloc(Degree(c.n), Rank(rank));
                s.fill_ternary_prob(0.5, &mut src(seed, 1));
                let mut p: GLWESecretPrepared<DeviceBuf<BE>, BE> = c.module.glwe_secret_prepared_alloc(Rank(rank));
                c.module.glwe_secret_prepare(&mut p, &s);
                (s, p)
            }

            fn ser<T: WriterTo>(x: &T) -> Vec<u8> {
                let mut bytes = Vec::new();
                x.write_to(&mut bytes).unwrap();
                bytes
            }

            /// At least two limbs in radix `b`.
            fn kk(b: u32, k: u32) -> u32 {
                k.max(b + 1)
            }

            /// Gadget rows of a dsize-1 key of `k` bits in radix `b`: one less than its limbs, at least one.
            fn rows(b: u32, k: u32) -> u32 {
                k.div_ceil(b).saturating_sub(1).max(1)
            }

            /// LWE secret of the case: dimension a multiple of the block size and at most N, distribution from
            /// `extra` (`block_only`: block-binary with blocks of 2 or 3 - the prepare pipeline hands the blind
            /// rotation an LWE of dimension N - 1, which only the block-binary path accepts for n_lwe < N - 1).
            fn lwe_secret(sh: &Shape, block_only: bool) -> (LWESecret<Vec<u8>>, u32) {
                let block = if block_only { [2u32, 3][(sh.extra % 2) as usize] } else { [0u32, 1, 2, 3][(sh.extra % 4) as usize] };
                let step = block.max(1);
                let mut n_lwe = sh.n_lwe.max(2).next_multiple_of(step);
                while n_lwe > sh.n {
                    n_lwe -= step;
                }
                let mut sk_lwe: LWESecret<Vec<u8>> = LWESecret::alloc(Degree(n_lwe));
                if block == 0 {
                    sk_lwe.fill_binary_prob(0.5, &mut src(sh.seed, 9));
                } else {
                    sk_lwe.fill_binary_block(block as usize, &mut src(sh.seed, 9));
                }
                (sk_lwe, n_lwe)
            }

            fn brk_layout(sh: &Shape, n_lwe: u32, rank: u32) -> BlindRotationKeyLayout {
                BlindRotationKeyLayout {
                    n_glwe: Degree(sh.n),
                    n_lwe: Degree(n_lwe),
                    base2k: Base2K(sh.b_key),
                    k: TorusPrecision(sh.k_key),
                    dnum: Dnum(sh.k_key.div_ceil(sh.b_key).saturating_sub(1).max(1).min(1 + (sh.extra >> 2) % 3)),
                    rank: Rank(rank),
                }
            }

            /// Key bundle layouts of the tiny-parameter style of fhe.rs, radices and precisions from the shape.
            fn bdd_shape_layout(sh: &Shape, n_lwe: u32, rank: u32) -> BDDKeyLayout {
                let k_brk = kk(sh.b_in, sh.k_key);
                let k_atk = kk(sh.b_key, sh.k_key.max(sh.k_in));
                let b_tsk = sh.b_key.saturating_sub(1).max(6);
                let k_tsk = kk(b_tsk, sh.k_key);
                let k_ksg = kk(sh.b_res, sh.k_res);
                let size_ksg = k_ksg.div_ceil(sh.b_res);
                let dsize_ksg = if size_ksg > 2 { sh.dsize } else { 1 };
                let b_ksl = (sh.b_res / 2).max(3);
                // two to six whole limbs plus a partial one
                let k_ksl = b_ksl * (2 + (sh.seed >> 44) as u32 % 5) + 1 + (sh.seed % b_ksl as u64) as u32 % (b_ksl - 1);
                let with_ks_glwe = rank > 1 || sh.rank_in == 2;
                BDDKeyLayout {
                    cbt_layout: CircuitBootstrappingKeyLayout {
                        brk_layout: BlindRotationKeyLayout {
                            n_glwe: Degree(sh.n),
                            n_lwe: Degree(n_lwe),
                            base2k: Base2K(sh.b_in),
                            k: TorusPrecision(k_brk),
                            dnum: Dnum(rows(sh.b_in, k_brk)),
                            rank: Rank(rank),
                        },
                        atk_layout: GLWEAutomorphismKeyLayout {
                            n: Degree(sh.n),
                            base2k: Base2K(sh.b_key),
                            k: TorusPrecision(k_atk),
                            rank: Rank(rank),
                            dnum: Dnum(rows(sh.b_key, k_atk)),
                            dsize: Dsize(1),
                        },
                        tsk_layout: GGLWEToGGSWKeyLayout {
                            n: Degree(sh.n),
                            base2k: Base2K(b_tsk),
                            k: TorusPrecision(k_tsk),
                            rank: Rank(rank),
                            dnum: Dnum(rows(b_tsk, k_tsk)),
                            dsize: Dsize(1),
                        },
                    },
                    ks_glwe_layout: if with_ks_glwe {
                        Some(GLWESwitchingKeyLayout {
                            n: Degree(sh.n),
                            base2k: Base2K(sh.b_res),
                            k: TorusPrecision(k_ksg),
                            rank_in: Rank(rank),
                            rank_out: Rank(1),
                            dnum: Dnum((size_ksg / dsize_ksg).saturating_sub(1).max(1)),
                            dsize: Dsize(dsize_ksg),
                        })
                    } else {
                        None
                    },
                    ks_lwe_layout: GLWEToLWEKeyLayout {
                        n: Degree(sh.n),
                        base2k: Base2K(b_ksl),
                        k: TorusPrecision(k_ksl),
                        rank_in: Rank(if with_ks_glwe { 1 } else { rank }),
                        dnum: Dnum(rows(b_ksl, k_ksl)),
                    },
                }
            }

            fn atk_layout(sh: &Shape, rank: u32) -> GLWEAutomorphismKeyLayout {
                GLWEAutomorphismKeyLayout {
                    n: Degree(sh.n),
                    base2k: Base2K(sh.b_key),
                    k: TorusPrecision(sh.k_key),
                    rank: Rank(rank),
                    dnum: Dnum(sh.dnum()),
                    dsize: Dsize(sh.dsize),
                }
            }

            /// Prepared automorphism keys for the given Galois elements, encrypted for real (the element matters).
            fn auto_keys(
                c: &Ctx,
                sh: &Shape,
                rank: u32,
                gal_els: &[i64],
                big: &mut ScratchOwned<BE>,
            ) -> std::collections::HashMap<i64, poulpy_core::layouts::GLWEAutomorphismKeyPrepared<DeviceBuf<BE>, BE>> {
                let infos = atk_layout(sh, rank);
                let enc = EncryptionLayout::new_from_default_sigma(infos).unwrap();
                let (s0, _) = skp(c, rank, sh.seed);
                let mut keys = std::collections::HashMap::new();
                for p in gal_els {
                    let mut atk: GLWEAutomorphismKey<Vec<u8>> = GLWEAutomorphismKey::alloc_from_infos(&infos);
                    c.module
                        .glwe_automorphism_key_encrypt_sk(&mut atk, *p, &s0, &enc, &mut src(sh.seed, 3), &mut src(sh.seed, 4), big.borrow());
                    let mut ap = c.module.glwe_automorphism_key_prepared_alloc_from_infos(&atk);
                    c.module.glwe_automorphism_key_prepare(&mut ap, &atk, big.borrow());
                    keys.insert(*p, ap);
                }
                keys
            }

            pub fn core_op5(op: &str, sh: &Shape, w: &Window) -> Option<RunResult> {
                if !OPS5.contains(&op) {
                    return None;
                }
                if op.starts_with("hal_") {
                    return core_op5_hal(op, sh, w);
                }
                if op.starts_with("bdd_key_") || op == "fhe_uint_prepare_custom_shapes" {
                    return core_op5_bdd_key(op, sh, w);
                }
                if op.starts_with("blind_rotation_") {
                    return core_op5_brk(op, sh, w);
                }
                if op.starts_with("bdd_2w_to_1w_") {
                    return core_op5_2w(op, sh, w);
                }
                core_op5_core(op, sh, w)
            }

            /// poulpy-bin-fhe: the BDD evaluation key bundle.
            fn core_op5_bdd_key(op: &str, sh: &Shape, w: &Window) -> Option<RunResult> {
                use poulpy_bin_fhe::bdd_arithmetic::{BDDKeyEncryptSk, BDDKeyPreparedFactory};
                let c = ctx(sh.n, 1);
                let m = &c.module;
                let mut big: ScratchOwned<BE> = ScratchOwned::alloc(1 << 23);
                let rank = sh.rank_out.min(2);
                let (sk_lwe, n_lwe) = lwe_secret(sh, op != "bdd_key_encrypt_sk");
                let layout = bdd_shape_layout(sh, n_lwe, rank);
                let (sk_glwe, sp) = skp(c, rank, sh.seed);
                let mut key: BDDKey<Vec<u8>, CGGI> = BDDKey::alloc_from_infos(&layout);
                let enc = BDDEncryptionInfos::from_default_sigma(&layout).unwrap();
                let via_struct = sh.flags & 1 == 1;
                if op == "bdd_key_encrypt_sk" {
                    let declared = <Module<BE> as BDDKeyEncryptSk<CGGI, BE>>::bdd_key_encrypt_sk_tmp_bytes(m, &layout);
                    let r = windowed(declared, w, &mut |s| {
                        if via_struct {
                            key.encrypt_sk(m, &sk_lwe, &sk_glwe, &enc, &mut src(sh.seed, 3), &mut src(sh.seed, 4), s)
                        } else {
                            m.bdd_key_encrypt_sk(&mut key, &sk_lwe, &sk_glwe, &enc, &mut src(sh.seed, 3), &mut src(sh.seed, 4), s)
                        }
                    });
                    return Some(finish(r, declared, vec![ser(&key)]));
                }
                key.encrypt_sk(m, &sk_lwe, &sk_glwe, &enc, &mut src(sh.seed, 3), &mut src(sh.seed, 4), big.borrow());
                let mut prepared: BDDKeyPrepared<DeviceBuf<BE>, CGGI, BE> = BDDKeyPrepared::alloc_from_infos(m, &layout);
                // the pipeline the bundle exists for: one bit of an encrypted byte goes through ks_glwe (if any),
                // ks_lwe and the circuit bootstrapping into a prepared GGSW
                let size_res = sh.k_res.div_ceil(sh.b_res).max(2);
                let k_res = sh.b_res * (size_res - 1) + 1 + (sh.k_res % sh.b_res).min(sh.b_res - 1);
                let ggsw_infos = GGSWLayout {
                    n: Degree(sh.n),
                    base2k: Base2K(sh.b_res),
                    k: TorusPrecision(k_res),
                    rank: Rank(rank),
                    dnum: Dnum((size_res - 1).max(1)),
                    dsize: Dsize(1),
                };
                // bit of the byte: first, last, middle, anywhere
                let bit = draw::index(sh.seed >> 40, 8);
                // one bit, or (one draw in three, when it fits the byte) two
                let bit_count = if (sh.seed >> 43) % 3 == 0 && bit < 7 { 2 } else { 1 };
                let word_infos = gl(sh.n, sh.b_in, sh.k_in, rank);
                let wenc = EncryptionLayout::new_from_default_sigma(word_infos).unwrap();
                let mut word: FheUint<Vec<u8>, u8> = FheUint::alloc_from_infos(&word_infos);
                word.encrypt_sk(m, (sh.seed >> 8) as u8, &sp, &wenc, &mut src(sh.seed, 5), &mut src(sh.seed, 6), big.borrow());
                let mut res: FheUintPrepared<DeviceBuf<BE>, u8, BE> = FheUintPrepared::alloc_from_infos(m, &ggsw_infos);
                let bit_bytes = |res: &FheUintPrepared<DeviceBuf<BE>, u8, BE>| -> Vec<u8> {
                    let mut out = Vec::new();
                    for i in bit..bit + bit_count {
                        let g = res.get_bit(i);
                        let d: &[u8] = g.data().data();
                        out.extend_from_slice(d);
                    }
                    out
                };
                if op == "fhe_uint_prepare_custom_shapes" {
                    // same entry point as the `prep` subject of fhe.rs, with layouts from the shape instead of the fixed bundle
                    prepared.prepare(m, &key, big.borrow());
                    use poulpy_bin_fhe::bdd_arithmetic::BDDKeyHelper;
                    use poulpy_bin_fhe::circuit_bootstrapping::CircuitBootstrappingKeyInfos;
                    let (cbt, ks_glwe, ks_lwe) = prepared.get_cbt_key();
                    let block = cbt.block_size();
                    // set-up check: every stage of the pipeline runs on these layouts when it has ample scratch
                    // (a shape one of them rejects is inadmissible)
                    {
                        use poulpy_core::layouts::LWEInfos;
                        let lwe_infos = LWELayout {
                            n: Degree(sh.n - 1),
                            k: word.max_k(),
                            base2k: Base2K(sh.b_in),
                        };
                        let mut lwe: LWE<Vec<u8>> = LWE::alloc_from_infos(&lwe_infos);
                        word.get_bit_lwe(m, bit, &mut lwe, ks_glwe, ks_lwe, big.borrow());
                        let mut tmp: GGSW<Vec<u8>> = GGSW::alloc_from_infos(&ggsw_infos);
                        cbt.execute_to_constant(m, &mut tmp, &lwe, 1, 1, big.borrow());
                    }
                    // the query gets the very objects the call gets (the entry assert does the same; infos read back
                    // from prepared keys report k rounded up to whole limbs, so for k not a multiple of base2k the
                    // query on the bare layouts can come out smaller than what the entry assert demands)
                    let declared = m.fhe_uint_prepare_tmp_bytes(block, 1, &res, &word, &prepared);
                    let mut r = windowed(declared, w, &mut |s| m.fhe_uint_prepare_custom(&mut res, &word, bit, bit_count, &prepared, s));
                    // The op carves its per-thread window of exactly `fhe_uint_prepare_tmp_bytes` out of whatever it is
                    // given, so when that budget does not cover an inner step it panics with any scratch size (in a
                    // scoped thread: the message is lost). Every stage passed the set-up check, so a panic of the
                    // reference run is not a rejected shape: let it stand (no outputs) and the exact-size run reports
                    // FIT:panic_with_declared_size.
                    if w.mode == WindowMode::Generous && r.0.is_err() {
                        r.0 = Ok(());
                        return Some(finish(r, declared, vec![Vec::new()]));
                    }
                    return Some(finish(r, declared, vec![bit_bytes(&res)]));
                }
                let declared = <Module<BE> as BDDKeyPreparedFactory<CGGI, BE>>::prepare_bdd_key_tmp_bytes(m, &layout);
                let r = windowed(declared, w, &mut |s| {
                    if via_struct {
                        prepared.prepare(m, &key, s)
                    } else {
                        m.prepare_bdd_key(&mut prepared, &key, s)
                    }
                });
                // observe the prepared bundle through the pipeline (it sizes its own per-thread scratch from
                // fhe_uint_prepare_tmp_bytes, the generous arena only has to hold that)
                if r.0.is_ok() {
                    m.fhe_uint_prepare_custom(&mut res, &word, bit, bit_count, &prepared, big.borrow());
                }
                Some(finish(r, declared, vec![bit_bytes(&res)]))
            }

            /// poulpy-bin-fhe: blind rotation keys (compressed encryption, struct-level wrappers).
            fn core_op5_brk(op: &str, sh: &Shape, w: &Window) -> Option<RunResult> {
                use poulpy_bin_fhe::blind_rotation::{
                    BlindRotationKey, BlindRotationKeyCompressed, BlindRotationKeyCompressedEncryptSk, BlindRotationKeyPrepared,
                    LookUpTableLayout, LookupTable,
                };
                let c = ctx(sh.n, 1);
                let m = &c.module;
                let mut big: ScratchOwned<BE> = ScratchOwned::alloc(1 << 22);
                let rank = sh.rank_out.min(2);
                let (sk_lwe, n_lwe) = lwe_secret(sh, false);
                let brk_infos = brk_layout(sh, n_lwe, rank);
                let enc = EncryptionLayout::new_from_default_sigma(brk_infos).unwrap();
                let (_s, sp) = skp(c, rank, sh.seed);
                if op == "blind_rotation_key_compressed_encrypt_sk" {
                    let mut seed_xa = [7u8; 32];
                    seed_xa[..8].copy_from_slice(&sh.seed.to_le_bytes());
                    let mut key: BlindRotationKeyCompressed<Vec<u8>, CGGI> = BlindRotationKeyCompressed::alloc(&brk_infos);
                    let declared =
                        <Module<BE> as BlindRotationKeyCompressedEncryptSk<BE, CGGI>>::blind_rotation_key_compressed_encrypt_sk_tmp_bytes(
                            m, &brk_infos,
                        );
                    let r = windowed(declared, w, &mut |s| {
                        m.blind_rotation_key_compressed_encrypt_sk(&mut key, &sp, &sk_lwe, seed_xa, &enc, &mut src(sh.seed, 3), s)
                    });
                    return Some(finish(r, declared, vec![ser(&key)]));
                }
                let mut brk: BlindRotationKey<Vec<u8>, CGGI> = BlindRotationKey::alloc(&brk_infos);
                if op == "blind_rotation_key_encrypt_sk_via_struct" {
                    let declared = BlindRotationKey::<Vec<u8>, CGGI>::encrypt_sk_tmp_bytes::<_, _, BE>(m, &brk_infos);
                    let r = windowed(declared, w, &mut |s| {
                        brk.encrypt_sk(m, &sp, &sk_lwe, &enc, &mut src(sh.seed, 3), &mut src(sh.seed, 4), s)
                    });
                    return Some(finish(r, declared, vec![ser(&brk)]));
                }
                brk.encrypt_sk(m, &sp, &sk_lwe, &enc, &mut src(sh.seed, 3), &mut src(sh.seed, 4), big.borrow());
                let mut bp: BlindRotationKeyPrepared<DeviceBuf<BE>, CGGI, BE> = BlindRotationKeyPrepared::alloc(m, &brk);
                // (the extended LUT needs a block-binary LWE secret)
                let ext: usize = if op == "blind_rotation_execute_via_struct" && sh.flags & 1 == 1 && sh.extra % 4 != 0 {
                    // "a non-zero power of two"
                    [2usize, 4, 2, 8][(sh.seed >> 38) as usize % 4]
                } else {
                    1
                };
                let res_infos = gl(sh.n, sh.b_key, sh.k_res.max(2), rank);
                let lwe_b = 3 + sh.extra;
                let lwe_infos = LWELayout {
                    n: Degree(n_lwe),
                    k: TorusPrecision(2 * lwe_b),
                    base2k: Base2K(lwe_b),
                };
                let mut lwe: LWE<Vec<u8>> = LWE::alloc_from_infos(&lwe_infos);
                lwe.fill_uniform(lwe_b as usize, &mut src(sh.seed, 6));
                // table: one limb or two, 1, 2, 4 or N entries (a power of two, so that the steps tile the domain),
                // 1..6 message bits
                let lut_k = if (sh.seed >> 41) & 1 == 0 { sh.b_key } else { sh.b_key + 1 + (sh.seed >> 42) as u32 % sh.b_key };
                let lut_infos = LookUpTableLayout {
                    n: Degree(sh.n),
                    extension_factor: ext,
                    k: TorusPrecision(lut_k),
                    base2k: Base2K(sh.b_key),
                };
                let mut lut: LookupTable = LookupTable::alloc(&lut_infos);
                let f_len = [1usize, 2, 4, sh.n as usize][(sh.seed >> 46) as usize % 4];
                let f: Vec<i64> = (0..f_len as i64).map(|i| if i % 3 == 2 { -(2 * i + 1) } else { 2 * i + 1 }).collect();
                lut.set(m, &f, 1 + (sh.seed >> 48) as usize % (sh.b_key as usize).min(6));
                let mut res: GLWE<Vec<u8>> = GLWE::alloc_from_infos(&res_infos);
                if op == "blind_rotation_key_prepare_via_struct" {
                    let declared = BlindRotationKeyPrepared::<DeviceBuf<BE>, CGGI, BE>::prepare_tmp_bytes(m, &brk_infos);
                    let r = windowed(declared, w, &mut |s| bp.prepare(m, &brk, s));
                    if r.0.is_ok() {
                        bp.execute(m, &mut res, &lwe, &lut, big.borrow());
                    }
                    return Some(finish(r, declared, vec![res.data().data.clone()]));
                }
                bp.prepare(m, &brk, big.borrow());
                let declared =
                    BlindRotationKeyPrepared::<DeviceBuf<BE>, CGGI, BE>::execute_tmp_bytes(m, bp.block_size(), ext, &res_infos, &brk_infos);
                let r = windowed(declared, w, &mut |s| bp.execute(m, &mut res, &lwe, &lut, s));
                Some(finish(r, declared, vec![res.data().data.clone()]))
            }

            /// poulpy-bin-fhe: the generic two-word executor with harness circuits on the shared 8-bit word.
            fn core_op5_2w(op: &str, sh: &Shape, w: &Window) -> Option<RunResult> {
                use poulpy_bin_fhe::bdd_arithmetic::ExecuteBDDCircuit2WTo1W;
                use poulpy_core::layouts::GLWEToRef;
                let c = ctx(sh.n, 1);
                let b = bdd_ctx(c);
                let m = &c.module;
                // same radix as the selector bits (13); precision from one to three limbs
                let k = 13 * (1 + sh.extra % 3) - (sh.seed % 5) as u32;
                let res_infos = gl(sh.n, 13, k, 1);
                let outputs = 1 + (sh.seed >> 8) as usize % 8;
                let circuit = SimCircuit::generate(sh.seed, outputs, 16);
                let mut out: FheUint<Vec<u8>, u8> = FheUint::alloc_from_infos(&res_infos);
                let (r, declared) = if op == "bdd_2w_to_1w_generic" {
                    let declared =
                        m.execute_bdd_circuit_2w_to_1w_tmp_bytes::<_, u8, _, _, _, _>(&circuit, &res_infos, &c.ggsw_infos, &b.key);
                    let r = windowed(declared, w, &mut |s| {
                        m.execute_bdd_circuit_2w_to_1w(&mut out, &circuit, &c.inputs, &c.inputs, &b.key, s)
                    });
                    (r, declared)
                } else {
                    // 1, 2, a count that does not divide the outputs, more threads than outputs, more than 32
                    let threads = draw::threads(sh.seed >> 20, outputs);
                    let declared = m.execute_bdd_circuit_2w_to_1w_multi_thread_tmp_bytes::<_, u8, _, _, _, _>(
                        threads,
                        &circuit,
                        &res_infos,
                        &c.ggsw_infos,
                        &b.key,
                    );
                    let r = windowed(declared, w, &mut |s| {
                        m.execute_bdd_circuit_2w_to_1w_multi_thread(threads, &mut out, &circuit, &c.inputs, &c.inputs, &b.key, s)
                    });
                    (r, declared)
                };
                let bytes: Vec<u8> = {
                    let g = out.to_ref();
                    let d: &[u8] = g.data().data;
                    d.to_vec()
                };
                Some(finish(r, declared, vec![bytes]))
            }

            /// poulpy-core: packer, internal external product, extension-point form of a compressed key encryption.
            fn core_op5_core(op: &str, sh: &Shape, w: &Window) -> Option<RunResult> {
                use poulpy_core::api::GLWEExternalProductInternal;
                use poulpy_core::layouts::{GGLWEToGGSWKeyCompressed, LWEInfos};
                use poulpy_core::oep::CoreImpl;
                use poulpy_core::{GLWEPacker, glwe_packer_add, glwe_packer_flush, glwe_packer_galois_elements, glwe_packer_tmp_bytes};
                use poulpy_hal::api::VecZnxDftAlloc;
                let c = ctx(sh.n, 1);
                let m = &c.module;
                let mut big: ScratchOwned<BE> = ScratchOwned::alloc(1 << 22);
                let rank = sh.rank_out;
                let r = match op {
                    "gglwe_to_ggsw_key_compressed_encrypt_sk_oep" => {
                        let infos = GGLWEToGGSWKeyLayout {
                            n: Degree(sh.n),
                            base2k: Base2K(sh.b_key),
                            k: TorusPrecision(sh.k_key),
                            rank: Rank(rank),
                            dnum: Dnum(sh.dnum()),
                            dsize: Dsize(sh.dsize),
                        };
                        let enc = EncryptionLayout::new_from_default_sigma(infos).unwrap();
                        let (s0, _) = skp(c, rank, sh.seed);
                        let mut seed_xa = [7u8; 32];
                        seed_xa[..8].copy_from_slice(&sh.seed.to_le_bytes());
                        let mut key: GGLWEToGGSWKeyCompressed<Vec<u8>> = GGLWEToGGSWKeyCompressed::alloc_from_infos(&infos);
                        let declared = <BE as CoreImpl<BE>>::gglwe_to_ggsw_key_compressed_encrypt_sk_tmp_bytes(m, &infos);
                        let r = windowed(declared, w, &mut |s| {
                            <BE as CoreImpl<BE>>::gglwe_to_ggsw_key_compressed_encrypt_sk(m, &mut key, &s0, seed_xa, &enc, &mut src(sh.seed, 3), s)
                        });
                        finish(r, declared, vec![ser(&key)])
                    }
                    "glwe_external_product_internal" => {
                        // the input is in the radix of the GGSW (entry assert); the accumulator has the GGSW's limbs
                        let ggsw_infos = GGSWLayout {
                            n: Degree(sh.n),
                            base2k: Base2K(sh.b_key),
                            k: TorusPrecision(sh.k_key),
                            rank: Rank(rank),
                            dnum: Dnum(sh.dnum()),
                            dsize: Dsize(sh.dsize),
                        };
                        let mut ggsw: GGSW<Vec<u8>> = GGSW::alloc_from_infos(&ggsw_infos);
                        ggsw.fill_uniform(sh.b_key as usize, &mut src(sh.seed, 2));
                        let mut gp = m.ggsw_prepared_alloc_from_infos(&ggsw);
                        m.ggsw_prepare(&mut gp, &ggsw, big.borrow());
                        let a_infos = gl(sh.n, sh.b_key, sh.k_in, rank);
                        let mut a: GLWE<Vec<u8>> = GLWE::alloc_from_infos(&a_infos);
                        a.fill_uniform(sh.b_key as usize, &mut src(sh.seed, 6));
                        let cols = rank as usize + 1;
                        let acc_size = ggsw_infos.size();
                        let declared = m.glwe_external_product_internal_tmp_bytes(&ggsw_infos, &a_infos, &ggsw_infos);
                        let mut out: Vec<u8> = Vec::new();
                        let r = windowed(declared, w, &mut |s| {
                            let res_dft = m.vec_znx_dft_alloc(cols, acc_size);
                            let res_big = m.glwe_external_product_internal(res_dft, &a, &gp, s);
                            let d: &[u8] = res_big.data().as_ref();
                            out = d.to_vec();
                        });
                        finish(r, declared, vec![out])
                    }
                    "glwe_packer_add" | "glwe_packer_flush" => {
                        // accumulators and inputs in the input layout (the key rows cover it), result in the result layout
                        let acc_infos = gl(sh.n, sh.b_in, sh.k_in, rank);
                        let out_infos = gl(sh.n, sh.b_res, sh.k_res, rank);
                        let atk_infos = atk_layout(sh, rank);
                        let keys = auto_keys(c, sh, rank, &glwe_packer_galois_elements(m), &mut big);
                        let log_n = sh.n.trailing_zeros() as usize;
                        // "packs coefficients which are multiples of X^{N/2^log_batch}": 0..log_n - 1 (the packer keeps
                        // log_n - log_batch accumulators and reads the first one)
                        let log_batch = draw::index(sh.seed >> 20, log_n);
                        let count = (sh.n as usize) >> log_batch;
                        // inputs share the radix of the accumulators (glwe_sub / glwe_add assert it); their precision may differ
                        let ct_infos = gl(sh.n, sh.b_in, if sh.flags & 1 == 1 { sh.k_res } else { sh.k_in }, rank);
                        let cts: Vec<GLWE<Vec<u8>>> = (0..3u64)
                            .map(|i| {
                                let mut ct: GLWE<Vec<u8>> = GLWE::alloc_from_infos(&ct_infos);
                                ct.fill_uniform(sh.b_in as usize, &mut src(sh.seed ^ (i << 32), 6));
                                ct
                            })
                            .collect();
                        // which slots hold a ciphertext (at least the first)
                        let present = |i: usize| -> bool { i == 0 || (sh.seed >> (i % 48)) & 1 == 1 };
                        let mut packer: GLWEPacker = GLWEPacker::alloc(&acc_infos, log_batch);
                        let mut res: GLWE<Vec<u8>> = GLWE::alloc_from_infos(&out_infos);
                        res.fill_uniform(sh.b_res as usize, &mut src(sh.seed, 7));
                        let declared = glwe_packer_tmp_bytes(m, &acc_infos, &atk_infos);
                        let r = if op == "glwe_packer_add" {
                            windowed(declared, w, &mut |s| {
                                for i in 0..count {
                                    if present(i) {
                                        glwe_packer_add(m, &mut packer, Some(&cts[i % 3]), &keys, s);
                                    } else {
                                        glwe_packer_add(m, &mut packer, None::<&GLWE<Vec<u8>>>, &keys, s);
                                    }
                                }
                                glwe_packer_flush(m, &mut packer, &mut res, s);
                            })
                        } else {
                            for i in 0..count {
                                if present(i) {
                                    glwe_packer_add(m, &mut packer, Some(&cts[i % 3]), &keys, big.borrow());
                                } else {
                                    glwe_packer_add(m, &mut packer, None::<&GLWE<Vec<u8>>>, &keys, big.borrow());
                                }
                            }
                            windowed(declared, w, &mut |s| glwe_packer_flush(m, &mut packer, &mut res, s))
                        };
                        finish(r, declared, vec![ser(&res)])
                    }
                    _ => return None,
                };
                Some(r)
            }

            /// Canary margin around the operands of the ring merge / split ops: a write past the end of an
            /// operand lands in harness-owned bytes and is reported (through the `canary_ok` flag, i.e. as
            /// FIT:wrote_outside_window) instead of corrupting the heap of the worker process.
            const GUARD: usize = 4096;
            const GUARD_BYTE: u8 = 0xC5;

            fn guarded(len: usize) -> Vec<u8> {
                let mut buf: Vec<u8> = poulpy_hal::alloc_aligned::<u8>(len + 2 * GUARD);
                buf.fill(GUARD_BYTE);
                buf
            }

            fn guards_intact(buf: &[u8]) -> bool {
                buf[..GUARD].iter().all(|b| *b == GUARD_BYTE) && buf[buf.len() - GUARD..].iter().all(|b| *b == GUARD_BYTE)
            }

            /// Every column but `col` holds the same bytes in both images of a (n, cols, size) vector.
            fn other_cols_same(before: &[u8], after: &[u8], n: usize, cols: usize, size: usize, col: usize) -> bool {
                use poulpy_hal::layouts::{VecZnx, ZnxView};
                let x: VecZnx<&[u8]> = VecZnx::from_data(before, n, cols, size);
                let y: VecZnx<&[u8]> = VecZnx::from_data(after, n, cols, size);
                (0..cols).filter(|c| *c != col).all(|c| (0..size).all(|j| x.at(c, j) == y.at(c, j)))
            }

            /// poulpy_hal::api level: ring merge / split, in-place rotation, in-place multiplication by X^p - 1.
            fn core_op5_hal(op: &str, sh: &Shape, w: &Window) -> Option<RunResult> {
                use poulpy_hal::api::*;
                use poulpy_hal::layouts::VecZnx;
                let c = ctx(sh.n, 1);
                let m = &c.module;
                let n = sh.n as usize;
                let size_in = sh.k_in.div_ceil(sh.b_in) as usize;
                let size_res = sh.k_res.div_ceil(sh.b_res) as usize;
                let cols = sh.rank_out as usize + 1;
                // source and destination column are chosen independently (first, last, middle; equal or not)
                let col = draw::index(sh.seed >> 4, cols);
                let res_col = draw::index(sh.seed >> 6, cols);
                let p = draw::rotation(sh.seed >> 40, sh.n);
                // 2, 4, n/4, n/2 or n sub-rings (any divisor: the sub-rings have degree n / parts >= 1)
                let parts = [2usize, 4, n / 2, n / 4, n, 2, 4, n / 2][(sh.seed >> 12) as usize % 8];
                let n_small = n / parts;
                let r = match op {
                    "hal_vec_znx_merge_rings" => {
                        let a_len = VecZnx::<Vec<u8>>::bytes_of(n_small, cols, size_in);
                        let mut a_bufs: Vec<Vec<u8>> = (0..parts).map(|_| guarded(a_len)).collect();
                        for (i, buf) in a_bufs.iter_mut().enumerate() {
                            let mut ai: VecZnx<&mut [u8]> = VecZnx::from_data(&mut buf[GUARD..GUARD + a_len], n_small, cols, size_in);
                            ai.fill_uniform(sh.b_in as usize, &mut src(sh.seed ^ ((i as u64) << 32), 6));
                        }
                        let a: Vec<VecZnx<&[u8]>> =
                            a_bufs.iter().map(|buf| VecZnx::from_data(&buf[GUARD..GUARD + a_len], n_small, cols, size_in)).collect();
                        let res_len = VecZnx::<Vec<u8>>::bytes_of(n, cols, size_res);
                        let mut res_buf = guarded(res_len);
                        {
                            let mut res: VecZnx<&mut [u8]> = VecZnx::from_data(&mut res_buf[GUARD..GUARD + res_len], n, cols, size_res);
                            res.fill_uniform(sh.b_in as usize, &mut src(sh.seed, 7));
                        }
                        let before = res_buf[GUARD..GUARD + res_len].to_vec();
                        let declared = m.vec_znx_merge_rings_tmp_bytes();
                        let mut r = {
                            let mut res: VecZnx<&mut [u8]> = VecZnx::from_data(&mut res_buf[GUARD..GUARD + res_len], n, cols, size_res);
                            windowed(declared, w, &mut |s| m.vec_znx_merge_rings(&mut res, res_col, &a, col, s))
                        };
                        let after = res_buf[GUARD..GUARD + res_len].to_vec();
                        r.2 &= guards_intact(&res_buf) && other_cols_same(&before, &after, n, cols, size_res, res_col);
                        finish(r, declared, vec![after])
                    }
                    "hal_vec_znx_split_ring" => {
                        let a_len = VecZnx::<Vec<u8>>::bytes_of(n, cols, size_in);
                        let mut a_buf = guarded(a_len);
                        {
                            let mut a: VecZnx<&mut [u8]> = VecZnx::from_data(&mut a_buf[GUARD..GUARD + a_len], n, cols, size_in);
                            a.fill_uniform(sh.b_in as usize, &mut src(sh.seed, 6));
                        }
                        let a: VecZnx<&[u8]> = VecZnx::from_data(&a_buf[GUARD..GUARD + a_len], n, cols, size_in);
                        let res_len = VecZnx::<Vec<u8>>::bytes_of(n_small, cols, size_res);
                        let mut res_bufs: Vec<Vec<u8>> = (0..parts).map(|_| guarded(res_len)).collect();
                        for (i, buf) in res_bufs.iter_mut().enumerate() {
                            let mut ri: VecZnx<&mut [u8]> = VecZnx::from_data(&mut buf[GUARD..GUARD + res_len], n_small, cols, size_res);
                            ri.fill_uniform(sh.b_in as usize, &mut src(sh.seed ^ ((i as u64) << 32), 7));
                        }
                        let before: Vec<Vec<u8>> = res_bufs.iter().map(|buf| buf[GUARD..GUARD + res_len].to_vec()).collect();
                        let declared = m.vec_znx_split_ring_tmp_bytes();
                        let mut r = {
                            let mut res: Vec<VecZnx<&mut [u8]>> = res_bufs
                                .iter_mut()
                                .map(|buf| VecZnx::from_data(&mut buf[GUARD..GUARD + res_len], n_small, cols, size_res))
                                .collect();
                            windowed(declared, w, &mut |s| m.vec_znx_split_ring(&mut res, res_col, &a, col, s))
                        };
                        let after: Vec<Vec<u8>> = res_bufs.iter().map(|buf| buf[GUARD..GUARD + res_len].to_vec()).collect();
                        r.2 &= res_bufs.iter().all(|buf| guards_intact(buf))
                            && before.iter().zip(after.iter()).all(|(x, y)| other_cols_same(x, y, n_small, cols, size_res, res_col));
                        finish(r, declared, after)
                    }
                    "hal_vec_znx_rotate_assign" | "hal_vec_znx_mul_xp_minus_one_assign" => {
                        let mut a: VecZnx<Vec<u8>> = VecZnx::alloc(n, cols, size_in);
                        a.fill_uniform(sh.b_in as usize, &mut src(sh.seed, 6));
                        if op == "hal_vec_znx_rotate_assign" {
                            let declared = m.vec_znx_rotate_assign_tmp_bytes();
                            let r = windowed(declared, w, &mut |s| m.vec_znx_rotate_assign(p, &mut a, col, s));
                            finish(r, declared, vec![a.data.clone()])
                        } else {
                            let declared = m.vec_znx_mul_xp_minus_one_assign_tmp_bytes();
                            let r = windowed(declared, w, &mut |s| m.vec_znx_mul_xp_minus_one_assign(p, &mut a, col, s));
                            finish(r, declared, vec![a.data.clone()])
                        }
                    }
                    _ => return None,
                };
                Some(r)
            }
        }
    };
}
pub(crate) use core_ops5_impl;
