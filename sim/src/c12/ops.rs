//! C12 op inventory: each entry drives one (operation, *_tmp_bytes) pair of the library with a
//! scratch window chosen by the simulator. Instantiated per backend (see fhe.rs).
//!
//! Adding an op: write a block in `core_op` that (1) builds inputs from `sh` (random contents are
//! fine: the ops are arithmetic), (2) asks the library for the declared size, (3) runs the call
//! through `windowed`, (4) returns the output bytes.
use serde_json::{Value, json};

#[derive(Clone, Debug, PartialEq)]
pub struct Shape {
    pub n: u32,
    pub rank_in: u32,
    pub rank_out: u32,
    pub b_res: u32,
    pub k_res: u32,
    pub b_in: u32,
    pub k_in: u32,
    pub b_key: u32,
    pub k_key: u32,
    pub dsize: u32,
    pub n_lwe: u32,
    pub extra: u32,
    /// bit 0: the destination is at least as wide as every input (CKKS cases): violations there are
    /// reported under a separate subject, so that the known res-only-query finding does not mask them
    pub flags: u32,
    pub seed: u64,
}

impl Shape {
    pub fn to_json(&self) -> Value {
        json!({"n": self.n, "rank_in": self.rank_in, "rank_out": self.rank_out, "b_res": self.b_res, "k_res": self.k_res,
               "b_in": self.b_in, "k_in": self.k_in, "b_key": self.b_key, "k_key": self.k_key, "dsize": self.dsize,
               "n_lwe": self.n_lwe, "extra": self.extra, "flags": self.flags, "seed": self.seed})
    }
    pub fn from_json(v: &Value) -> Shape {
        let u = |k: &str| v[k].as_u64().unwrap() as u32;
        Shape {
            n: u("n"),
            rank_in: u("rank_in"),
            rank_out: u("rank_out"),
            b_res: u("b_res"),
            k_res: u("k_res"),
            b_in: u("b_in"),
            k_in: u("k_in"),
            b_key: u("b_key"),
            k_key: u("k_key"),
            dsize: u("dsize"),
            n_lwe: u("n_lwe"),
            extra: u("extra"),
            flags: v["flags"].as_u64().unwrap_or(0) as u32,
            seed: v["seed"].as_u64().unwrap(),
        }
    }
    /// key rows so that dnum * dsize covers the input: ceil(k_in / (b_key * dsize))
    pub fn dnum(&self) -> u32 {
        self.k_in.div_ceil(self.b_key * self.dsize).max(1)
    }
}

/// Scalar / index / offset arguments of the ops, drawn from bits of the Shape (`sel` is usually a
/// shifted `sh.seed`). The classes follow the operations' CONTRACTS (doc comment, entry asserts, what
/// the implementation supports), not the values the library's own tests happen to use: every class a
/// contract distinguishes (zero, below one limb, an exact multiple of the radix, several limbs, the
/// whole precision and beyond, either sign, first / middle / last index ...) is hit with a fixed share.
pub mod draw {
    /// A bit amount (shift, offset, power of two) for a vector of `limbs` limbs in radix `b`.
    pub fn bits(sel: u64, b: usize, limbs: usize) -> usize {
        let b = b.max(2);
        let limbs = limbs.max(1);
        let r = (sel >> 3) as usize;
        match sel % 8 {
            0 => 0,
            1 => 1 + r % (b - 1),                 // below one limb
            2 => b * (1 + r % limbs),             // an exact multiple of the radix, up to the whole precision
            3 => b * limbs + r % (2 * b),         // the whole precision and beyond
            4 => (b * limbs).saturating_sub(1 + r % b), // within the last limb
            5 => b + 1 + r % b.max(b * (limbs - 1)), // more than one limb
            _ => r % (b * (limbs + 1)),           // anywhere
        }
    }
    /// A signed bit offset with the classes of [`bits`].
    pub fn offset(sel: u64, b: usize, limbs: usize) -> i64 {
        let v = bits(sel >> 1, b, limbs) as i64;
        if sel & 1 == 1 { -v } else { v }
    }
    /// An odd Galois element for ring degree `n`: the generators the library's tests use, the identity,
    /// -1, their negatives, values at and beyond the cyclotomic order, large ones.
    pub fn galois(sel: u64, n: u32) -> i64 {
        let two_n = 2 * n as i64;
        let t = [
            5,
            -1,
            3,
            25,
            1,
            -5,
            two_n - 1,
            two_n + 1,
            -(two_n - 1),
            -(two_n + 3),
            4 * two_n + 5,
            125,
            (1i64 << 40) + 3,
            -((1i64 << 33) + 5),
            n as i64 + 1,
            n as i64 - 1,
        ];
        t[(sel % t.len() as u64) as usize]
    }
    /// A rotation amount (power of X): 0, +-1, around N and 2N, beyond 2N, either sign, large.
    pub fn rotation(sel: u64, n: u32) -> i64 {
        let n = n as i64;
        let r = (sel >> 4) as i64;
        match sel % 16 {
            0 => 0,
            1 => 1,
            2 => -1,
            3 => n - 1,
            4 => n,
            5 => n + 1,
            6 => 2 * n - 1,
            7 => 2 * n,
            8 => -n,
            9 => -(2 * n - 1),
            10 => 2 * n + 1 + r % (4 * n),
            11 => -(2 * n + 1 + r % (4 * n)),
            12 => (1i64 << 40) + r % (2 * n),
            _ => r % (4 * n) - 2 * n,
        }
    }
    /// An index below `len`: first, last, middle, anywhere.
    pub fn index(sel: u64, len: usize) -> usize {
        let len = len.max(1);
        match sel % 4 {
            0 => 0,
            1 => len - 1,
            2 => len / 2,
            _ => (sel >> 2) as usize % len,
        }
    }
    /// A thread count for `items` work items: 1, 2, one that does not divide the items, one above the
    /// items, one above 32.
    pub fn threads(sel: u64, items: usize) -> usize {
        let items = items.max(1);
        match sel % 8 {
            0 => 1,
            1 => 2,
            2 => (2..=items + 1).find(|t| items % t != 0).unwrap_or(3),
            3 => items + 1 + (sel >> 3) as usize % 3,
            4 => 33 + (sel >> 3) as usize % 4,
            5 => items,
            _ => 2 + (sel >> 3) as usize % 5,
        }
    }
}

macro_rules! core_ops_impl {
    ($be:ty) => {
        pub mod ops {
            use super::*;
            use crate::c12::ops::Shape;
            use poulpy_core::layouts::{
                Dnum, GGSW, GGSWPreparedFactory, GLWEAutomorphismKey, GLWEAutomorphismKeyLayout,
                GLWEAutomorphismKeyPreparedFactory, GLWEPlaintext, GLWESwitchingKey, GLWESwitchingKeyLayout,
                GLWESwitchingKeyPreparedFactory,
            };
            use poulpy_core::{
                GGSWEncryptSk, GLWEAutomorphism, GLWEDecrypt, GLWEEncryptSk, GLWEExternalProduct, GLWEKeyswitch, GLWENormalize,
                GLWESwitchingKeyEncryptSk,
            };
            use poulpy_hal::layouts::FillUniform;

            pub const OPS: &[&str] = &[
                "glwe_encrypt_sk",
                "glwe_decrypt",
                "glwe_keyswitch",
                "glwe_keyswitch_assign",
                "glwe_external_product",
                "glwe_external_product_assign",
                "glwe_automorphism",
                "glwe_normalize",
                "ggsw_encrypt_sk",
                "glwe_switching_key_encrypt_sk",
                "glwe_switching_key_prepare",
                "ggsw_prepare",
                "cmux",
                "circuit_bootstrapping_execute_to_constant",
                "circuit_bootstrapping_execute_to_exponent",
                "circuit_bootstrapping_key_encrypt_sk",
                "circuit_bootstrapping_key_prepare",
            ];

            /// Runs `body` with a scratch window of the chosen mode under the arena monitor.
            pub fn windowed(
                declared: usize,
                w: &Window,
                body: &mut dyn FnMut(&mut Scratch<BE>),
            ) -> (Result<(), String>, sched::Report, bool, usize) {
                crate::sched::install_hooks();
                let mut arena = Arena::new(w, declared, declared.next_multiple_of(64) + 8192);
                let twice = matches!(w.mode, WindowMode::ExactTwice | WindowMode::GenerousTwice);
                if crate::sched::nested() {
                    // c20 MIX: this thread already runs under the scheduler, which keeps deciding at every carve
                    let r = crate::util::catch(|| {
                        let s: &mut Scratch<BE> = Scratch::<BE>::from_bytes(arena.window());
                        body(s)
                    });
                    return (r, sched::Report::default(), arena.canaries_intact(), arena.len);
                }
                let range = arena.range();
                let (r, rep) = sched::run_monitored(range, || {
                    let s: &mut Scratch<BE> = Scratch::<BE>::from_bytes(arena.window());
                    body(s);
                    if twice {
                        // the same call again on what the first one left behind
                        let s: &mut Scratch<BE> = Scratch::<BE>::from_bytes(arena.window());
                        body(s)
                    }
                });
                (r, rep, arena.canaries_intact(), arena.len)
            }

            pub fn finish_pub(r: (Result<(), String>, sched::Report, bool, usize), declared: usize, outs: Vec<Vec<u8>>) -> RunResult {
                finish(r, declared, outs)
            }
            pub fn src_pub(seed: u64, k: u8) -> Source {
                src(seed, k)
            }

            fn finish(
                r: (Result<(), String>, sched::Report, bool, usize),
                declared: usize,
                outs: Vec<Vec<u8>>,
            ) -> RunResult {
                let (res, rep, canary_ok, window_len) = r;
                (
                    res.map(|_| RunOut {
                        outs,
                        declared,
                        per_thread: declared,
                        window_len,
                        canary_ok,
                        inputs_unchanged: true,
                        module_fingerprint_same: true,
                        items: 1,
                    }),
                    Some(rep),
                )
            }

            fn src(seed: u64, k: u8) -> Source {
                let mut s = [k; 32];
                s[..8].copy_from_slice(&seed.to_le_bytes());
                Source::new(s)
            }

            fn glwe_l(n: u32, b: u32, k: u32, rank: u32) -> GLWELayout {
                GLWELayout {
                    n: Degree(n),
                    base2k: Base2K(b),
                    k: TorusPrecision(k),
                    rank: Rank(rank),
                }
            }

            fn sk(c: &Ctx, rank: u32, seed: u64) -> (GLWESecret<Vec<u8>>, GLWESecretPrepared<DeviceBuf<BE>, BE>) {
                let mut s: GLWESecret<Vec<u8>> = GLWESecret::alloc(Degree(c.n), Rank(rank));
                s.fill_ternary_prob(0.5, &mut src(seed, 1));
                let mut p: GLWESecretPrepared<DeviceBuf<BE>, BE> = c.module.glwe_secret_prepared_alloc(Rank(rank));
                c.module.glwe_secret_prepare(&mut p, &s);
                (s, p)
            }

            pub fn core_op(op: &str, sh: &Shape, w: &Window) -> RunResult {
                let c = ctx(sh.n, 1);
                let m = &c.module;
                let mut big: ScratchOwned<BE> = ScratchOwned::alloc(1 << 22);
                match op {
                    "glwe_encrypt_sk" => {
                        let infos = glwe_l(sh.n, sh.b_res, sh.k_res, sh.rank_out);
                        let enc = EncryptionLayout::new_from_default_sigma(infos).unwrap();
                        let (_s, sp) = sk(c, sh.rank_out, sh.seed);
                        // the plaintext has the ciphertext's radix and its own precision (fewer, as many or more limbs)
                        let pt_infos = if sh.extra & 1 == 1 { glwe_l(sh.n, sh.b_res, sh.k_in, sh.rank_out) } else { infos };
                        let mut pt: GLWEPlaintext<Vec<u8>> = GLWEPlaintext::alloc_from_infos(&pt_infos);
                        pt.data_mut().fill_uniform(sh.b_res as usize, &mut src(sh.seed, 2));
                        let mut ct: GLWE<Vec<u8>> = GLWE::alloc_from_infos(&infos);
                        let declared = m.glwe_encrypt_sk_tmp_bytes(&infos);
                        let r = windowed(declared, w, &mut |s| {
                            m.glwe_encrypt_sk(&mut ct, &pt, &sp, &enc, &mut src(sh.seed, 3), &mut src(sh.seed, 4), s)
                        });
                        finish(r, declared, vec![ct.data().data.clone()])
                    }
                    "glwe_decrypt" => {
                        let infos = glwe_l(sh.n, sh.b_res, sh.k_res, sh.rank_out);
                        let (_s, sp) = sk(c, sh.rank_out, sh.seed);
                        let mut ct: GLWE<Vec<u8>> = GLWE::alloc_from_infos(&infos);
                        ct.fill_uniform(sh.b_res as usize, &mut src(sh.seed, 2));
                        // the plaintext has its own radix and precision (the final normalisation converts: narrower,
                        // wider, other radix)
                        let pt_infos = if sh.extra & 1 == 1 { glwe_l(sh.n, sh.b_in, sh.k_in, sh.rank_out) } else { infos };
                        let mut pt: GLWEPlaintext<Vec<u8>> = GLWEPlaintext::alloc_from_infos(&pt_infos);
                        let declared = m.glwe_decrypt_tmp_bytes(&infos);
                        let r = windowed(declared, w, &mut |s| m.glwe_decrypt(&ct, &mut pt, &sp, s));
                        finish(r, declared, vec![pt.data().data.clone()])
                    }
                    "glwe_keyswitch" | "glwe_keyswitch_assign" | "glwe_switching_key_prepare" | "glwe_switching_key_encrypt_sk" => {
                        // (in place the key maps rank_out -> rank_out: the receiver is both input and output)
                        let rank_in = if op == "glwe_keyswitch_assign" { sh.rank_out } else { sh.rank_in };
                        let in_infos = glwe_l(sh.n, sh.b_in, sh.k_in, rank_in);
                        let out_infos = glwe_l(sh.n, sh.b_res, sh.k_res, sh.rank_out);
                        let ksk_infos = GLWESwitchingKeyLayout {
                            n: Degree(sh.n),
                            base2k: Base2K(sh.b_key),
                            k: TorusPrecision(sh.k_key),
                            dnum: Dnum(sh.dnum()),
                            dsize: Dsize(sh.dsize),
                            rank_in: Rank(rank_in),
                            rank_out: Rank(sh.rank_out),
                        };
                        let mut ksk: GLWESwitchingKey<Vec<u8>> = GLWESwitchingKey::alloc_from_infos(&ksk_infos);
                        if op == "glwe_switching_key_encrypt_sk" {
                            let enc = EncryptionLayout::new_from_default_sigma(ksk_infos).unwrap();
                            let (s_in, _) = sk(c, sh.rank_in, sh.seed);
                            let (s_out, _) = sk(c, sh.rank_out, sh.seed ^ 5);
                            let declared = m.glwe_switching_key_encrypt_sk_tmp_bytes(&ksk_infos);
                            let r = windowed(declared, w, &mut |s| {
                                m.glwe_switching_key_encrypt_sk(
                                    &mut ksk,
                                    &s_in,
                                    &s_out,
                                    &enc,
                                    &mut src(sh.seed, 3),
                                    &mut src(sh.seed, 4),
                                    s,
                                )
                            });
                            let mut bytes = Vec::new();
                            poulpy_hal::layouts::WriterTo::write_to(&ksk, &mut bytes).unwrap();
                            return finish(r, declared, vec![bytes]);
                        }
                        ksk.fill_uniform(sh.b_key as usize, &mut src(sh.seed, 2));
                        let mut kp = m.glwe_switching_key_prepared_alloc_from_infos(&ksk);
                        if op == "glwe_switching_key_prepare" {
                            let declared = m.glwe_switching_key_prepare_tmp_bytes(&ksk);
                            let r = windowed(declared, w, &mut |s| m.glwe_switching_key_prepare(&mut kp, &ksk, s));
                            // observe the prepared key through a keyswitch with generous scratch
                            let mut a: GLWE<Vec<u8>> = GLWE::alloc_from_infos(&in_infos);
                            a.fill_uniform(sh.b_in as usize, &mut src(sh.seed, 6));
                            let mut res: GLWE<Vec<u8>> = GLWE::alloc_from_infos(&out_infos);
                            if r.0.is_ok() {
                                m.glwe_keyswitch(&mut res, &a, &kp, big.borrow());
                            }
                            return finish(r, declared, vec![res.data().data.clone()]);
                        }
                        m.glwe_switching_key_prepare(&mut kp, &ksk, big.borrow());
                        if op == "glwe_keyswitch" {
                            let mut a: GLWE<Vec<u8>> = GLWE::alloc_from_infos(&in_infos);
                            a.fill_uniform(sh.b_in as usize, &mut src(sh.seed, 6));
                            let mut res: GLWE<Vec<u8>> = GLWE::alloc_from_infos(&out_infos);
                            let declared = m.glwe_keyswitch_tmp_bytes(&out_infos, &in_infos, &ksk_infos);
                            let r = windowed(declared, w, &mut |s| m.glwe_keyswitch(&mut res, &a, &kp, s));
                            finish(r, declared, vec![res.data().data.clone()])
                        } else {
                            // in place: input layout = output layout (rank_in must equal rank_out)
                            let io = glwe_l(sh.n, sh.b_in, sh.k_in, sh.rank_out);
                            let mut res: GLWE<Vec<u8>> = GLWE::alloc_from_infos(&io);
                            res.fill_uniform(sh.b_in as usize, &mut src(sh.seed, 6));
                            let declared = m.glwe_keyswitch_tmp_bytes(&io, &io, &ksk_infos);
                            let r = windowed(declared, w, &mut |s| m.glwe_keyswitch_assign(&mut res, &kp, s));
                            finish(r, declared, vec![res.data().data.clone()])
                        }
                    }
                    "glwe_external_product" | "glwe_external_product_assign" | "ggsw_prepare" | "ggsw_encrypt_sk" | "cmux" => {
                        let in_infos = glwe_l(sh.n, sh.b_in, sh.k_in, sh.rank_out);
                        let out_infos = glwe_l(sh.n, sh.b_res, sh.k_res, sh.rank_out);
                        let ggsw_infos = GGSWLayout {
                            n: Degree(sh.n),
                            base2k: Base2K(sh.b_key),
                            k: TorusPrecision(sh.k_key),
                            rank: Rank(sh.rank_out),
                            dnum: Dnum(sh.dnum()),
                            dsize: Dsize(sh.dsize),
                        };
                        let mut ggsw: GGSW<Vec<u8>> = GGSW::alloc_from_infos(&ggsw_infos);
                        if op == "ggsw_encrypt_sk" {
                            let enc = EncryptionLayout::new_from_default_sigma(ggsw_infos).unwrap();
                            let (_s, sp) = sk(c, sh.rank_out, sh.seed);
                            let mut pt: poulpy_hal::layouts::ScalarZnx<Vec<u8>> = poulpy_hal::layouts::ScalarZnx::alloc(sh.n as usize, 1);
                            pt.fill_uniform(3, &mut src(sh.seed, 2));
                            let declared = m.ggsw_encrypt_sk_tmp_bytes(&ggsw_infos);
                            let r = windowed(declared, w, &mut |s| {
                                m.ggsw_encrypt_sk(&mut ggsw, &pt, &sp, &enc, &mut src(sh.seed, 3), &mut src(sh.seed, 4), s)
                            });
                            let mut bytes = Vec::new();
                            poulpy_hal::layouts::WriterTo::write_to(&ggsw, &mut bytes).unwrap();
                            return finish(r, declared, vec![bytes]);
                        }
                        ggsw.fill_uniform(sh.b_key as usize, &mut src(sh.seed, 2));
                        let mut gp = m.ggsw_prepared_alloc_from_infos(&ggsw);
                        let mut a: GLWE<Vec<u8>> = GLWE::alloc_from_infos(&in_infos);
                        a.fill_uniform(sh.b_in as usize, &mut src(sh.seed, 6));
                        if op == "ggsw_prepare" {
                            let declared = m.ggsw_prepare_tmp_bytes(&ggsw);
                            let r = windowed(declared, w, &mut |s| m.ggsw_prepare(&mut gp, &ggsw, s));
                            let mut res: GLWE<Vec<u8>> = GLWE::alloc_from_infos(&out_infos);
                            if r.0.is_ok() {
                                m.glwe_external_product(&mut res, &a, &gp, big.borrow());
                            }
                            return finish(r, declared, vec![res.data().data.clone()]);
                        }
                        m.ggsw_prepare(&mut gp, &ggsw, big.borrow());
                        match op {
                            "glwe_external_product" => {
                                let mut res: GLWE<Vec<u8>> = GLWE::alloc_from_infos(&out_infos);
                                let declared = m.glwe_external_product_tmp_bytes(&out_infos, &in_infos, &ggsw_infos);
                                let r = windowed(declared, w, &mut |s| m.glwe_external_product(&mut res, &a, &gp, s));
                                finish(r, declared, vec![res.data().data.clone()])
                            }
                            "glwe_external_product_assign" => {
                                let declared = m.glwe_external_product_tmp_bytes(&in_infos, &in_infos, &ggsw_infos);
                                let r = windowed(declared, w, &mut |s| m.glwe_external_product_assign(&mut a, &gp, s));
                                finish(r, declared, vec![a.data().data.clone()])
                            }
                            _ => {
                                use poulpy_bin_fhe::bdd_arithmetic::Cmux;
                                // `res = (t - f) * s + f`: the difference is formed in `res` (glwe_sub wants one radix for
                                // all three) and multiplied in place (`glwe_external_product_internal` wants the GGSW's
                                // radix): every ciphertext is in the key's radix, precisions from the shape; one draw in
                                // four keeps the shape's own radices (rejected at entry unless they coincide)
                                let own = (sh.seed >> 53) & 3 == 0;
                                let (b_t, b_r) = if own { (sh.b_in, sh.b_res) } else { (sh.b_key, sh.b_key) };
                                let t_infos = glwe_l(sh.n, b_t, sh.k_in, sh.rank_out);
                                let r_infos = glwe_l(sh.n, b_r, sh.k_res, sh.rank_out);
                                let mut t: GLWE<Vec<u8>> = GLWE::alloc_from_infos(&t_infos);
                                t.fill_uniform(b_t as usize, &mut src(sh.seed, 6));
                                // the false branch has its own precision
                                let f_infos = glwe_l(sh.n, b_t, if sh.extra & 1 == 1 { sh.k_res } else { sh.k_in }, sh.rank_out);
                                let mut f: GLWE<Vec<u8>> = GLWE::alloc_from_infos(&f_infos);
                                f.fill_uniform(b_t as usize, &mut src(sh.seed, 7));
                                let mut res: GLWE<Vec<u8>> = GLWE::alloc_from_infos(&r_infos);
                                let declared = m.cmux_tmp_bytes(&r_infos, &t_infos, &ggsw_infos);
                                let r = windowed(declared, w, &mut |s| m.cmux(&mut res, &t, &f, &gp, s));
                                finish(r, declared, vec![res.data().data.clone()])
                            }
                        }
                    }
                    "glwe_automorphism" => {
                        let in_infos = glwe_l(sh.n, sh.b_in, sh.k_in, sh.rank_out);
                        let out_infos = glwe_l(sh.n, sh.b_res, sh.k_res, sh.rank_out);
                        let atk_infos = GLWEAutomorphismKeyLayout {
                            n: Degree(sh.n),
                            base2k: Base2K(sh.b_key),
                            k: TorusPrecision(sh.k_key),
                            rank: Rank(sh.rank_out),
                            dnum: Dnum(sh.dnum()),
                            dsize: Dsize(sh.dsize),
                        };
                        let mut atk: GLWEAutomorphismKey<Vec<u8>> = GLWEAutomorphismKey::alloc_from_infos(&atk_infos);
                        // a real Galois element is needed: encrypt the key for an odd p (any: generators, 1, -1, negative,
                        // at and beyond the cyclotomic order, large)
                        let enc = EncryptionLayout::new_from_default_sigma(atk_infos).unwrap();
                        let (s0, _) = sk(c, sh.rank_out, sh.seed);
                        {
                            use poulpy_core::GLWEAutomorphismKeyEncryptSk;
                            let p = crate::c12::ops::draw::galois(sh.seed >> 44, sh.n);
                            m.glwe_automorphism_key_encrypt_sk(&mut atk, p, &s0, &enc, &mut src(sh.seed, 3), &mut src(sh.seed, 4), big.borrow());
                        }
                        let mut ap = m.glwe_automorphism_key_prepared_alloc_from_infos(&atk);
                        m.glwe_automorphism_key_prepare(&mut ap, &atk, big.borrow());
                        let mut a: GLWE<Vec<u8>> = GLWE::alloc_from_infos(&in_infos);
                        a.fill_uniform(sh.b_in as usize, &mut src(sh.seed, 6));
                        let mut res: GLWE<Vec<u8>> = GLWE::alloc_from_infos(&out_infos);
                        let declared = m.glwe_automorphism_tmp_bytes(&out_infos, &in_infos, &atk_infos);
                        let r = windowed(declared, w, &mut |s| m.glwe_automorphism(&mut res, &a, &ap, s));
                        finish(r, declared, vec![res.data().data.clone()])
                    }
                    "glwe_normalize" => {
                        let in_infos = glwe_l(sh.n, sh.b_in, sh.k_in, sh.rank_out);
                        let out_infos = glwe_l(sh.n, sh.b_res, sh.k_res, sh.rank_out);
                        let mut a: GLWE<Vec<u8>> = GLWE::alloc_from_infos(&in_infos);
                        a.fill_uniform(sh.b_in as usize, &mut src(sh.seed, 6));
                        let mut res: GLWE<Vec<u8>> = GLWE::alloc_from_infos(&out_infos);
                        let declared = m.glwe_normalize_tmp_bytes();
                        let r = windowed(declared, w, &mut |s| m.glwe_normalize(&mut res, &a, s));
                        finish(r, declared, vec![res.data().data.clone()])
                    }
                    "circuit_bootstrapping_execute_to_constant"
                    | "circuit_bootstrapping_execute_to_exponent"
                    | "circuit_bootstrapping_key_encrypt_sk"
                    | "circuit_bootstrapping_key_prepare" => {
                        use poulpy_bin_fhe::circuit_bootstrapping::{
                            CircuitBootstrappingEncryptionInfos, CircuitBootstrappingExecute, CircuitBootstrappingKey,
                            CircuitBootstrappingKeyEncryptSk, CircuitBootstrappingKeyPrepared, CircuitBootstrappingKeyPreparedFactory,
                        };
                        use poulpy_core::layouts::{LWE, LWELayout};
                        let rank = sh.rank_out.min(2);
                        // result GGSW: at least two limbs, dsize 1
                        let size_res = sh.k_res.div_ceil(sh.b_res).max(2);
                        let k_res = sh.b_res * (size_res - 1) + 1 + (sh.k_res % sh.b_res).min(sh.b_res - 1);
                        let k_big = sh.k_key.max(k_res);
                        let rows = |b: u32, k: u32| -> u32 { (k.div_ceil(b)).saturating_sub(1).max(1) };
                        // block size 1..4 of the block-binary LWE secret; the LWE dimension is a multiple of it
                        let block = 1 + (sh.seed >> 36) as u32 % 4;
                        let n_lwe = sh.n_lwe.max(2).next_multiple_of(block);
                        let b_tsk = sh.b_key.saturating_sub(1).max(6);
                        let cbt_infos = CircuitBootstrappingKeyLayout {
                            brk_layout: BlindRotationKeyLayout {
                                n_glwe: Degree(sh.n),
                                n_lwe: Degree(n_lwe),
                                base2k: Base2K(sh.b_in),
                                k: TorusPrecision(k_big),
                                dnum: Dnum(rows(sh.b_in, k_big)),
                                rank: Rank(rank),
                            },
                            atk_layout: GLWEAutomorphismKeyLayout {
                                n: Degree(sh.n),
                                base2k: Base2K(sh.b_key),
                                k: TorusPrecision(k_big),
                                rank: Rank(rank),
                                dnum: Dnum(rows(sh.b_key, k_big)),
                                dsize: Dsize(1),
                            },
                            tsk_layout: GGLWEToGGSWKeyLayout {
                                n: Degree(sh.n),
                                base2k: Base2K(b_tsk),
                                k: TorusPrecision(k_big),
                                rank: Rank(rank),
                                dnum: Dnum(rows(b_tsk, k_big)),
                                dsize: Dsize(1),
                            },
                        };
                        let ggsw_infos = GGSWLayout {
                            n: Degree(sh.n),
                            base2k: Base2K(sh.b_res),
                            k: TorusPrecision(k_res),
                            rank: Rank(rank),
                            dnum: Dnum((size_res - 1).max(1)),
                            dsize: Dsize(1),
                        };
                        let mut sk_lwe: LWESecret<Vec<u8>> = LWESecret::alloc(Degree(n_lwe));
                        sk_lwe.fill_binary_block(block as usize, &mut src(sh.seed, 9));
                        let (sk_glwe, _) = sk(c, rank, sh.seed);
                        let mut key: CircuitBootstrappingKey<Vec<u8>, CGGI> = CircuitBootstrappingKey::alloc_from_infos(&cbt_infos);
                        let enc = CircuitBootstrappingEncryptionInfos::from_default_sigma(&cbt_infos).unwrap();
                        if op == "circuit_bootstrapping_key_encrypt_sk" {
                            let declared = m.circuit_bootstrapping_key_encrypt_sk_tmp_bytes(&cbt_infos);
                            let r = windowed(declared, w, &mut |s| {
                                m.circuit_bootstrapping_key_encrypt_sk(&mut key, &sk_lwe, &sk_glwe, &enc, &mut src(sh.seed, 3), &mut src(sh.seed, 4), s)
                            });
                            let mut bytes = Vec::new();
                            poulpy_hal::layouts::WriterTo::write_to(&key, &mut bytes).unwrap();
                            return finish(r, declared, vec![bytes]);
                        }
                        m.circuit_bootstrapping_key_encrypt_sk(
                            &mut key,
                            &sk_lwe,
                            &sk_glwe,
                            &enc,
                            &mut src(sh.seed, 3),
                            &mut src(sh.seed, 4),
                            big.borrow(),
                        );
                        let mut kp: CircuitBootstrappingKeyPrepared<DeviceBuf<BE>, CGGI, BE> =
                            CircuitBootstrappingKeyPrepared::alloc_from_infos(m, &cbt_infos);
                        let lwe_b = 3 + sh.extra;
                        let lwe_infos = LWELayout {
                            n: Degree(n_lwe),
                            k: TorusPrecision(2 * lwe_b),
                            base2k: Base2K(lwe_b),
                        };
                        let mut lwe: LWE<Vec<u8>> = LWE::alloc_from_infos(&lwe_infos);
                        lwe.fill_uniform(lwe_b as usize, &mut src(sh.seed, 6));
                        let mut res: GGSW<Vec<u8>> = GGSW::alloc_from_infos(&ggsw_infos);
                        if op == "circuit_bootstrapping_key_prepare" {
                            let declared = m.circuit_bootstrapping_key_prepare_tmp_bytes(&cbt_infos);
                            let r = windowed(declared, w, &mut |s| kp.prepare(m, &key, s));
                            if r.0.is_ok() {
                                kp.execute_to_constant(m, &mut res, &lwe, 1, 1, big.borrow());
                            }
                            let mut bytes = Vec::new();
                            poulpy_hal::layouts::WriterTo::write_to(&res, &mut bytes).unwrap();
                            return finish(r, declared, vec![bytes]);
                        }
                        kp.prepare(m, &key, big.borrow());
                        // the entry assert evaluates the query on the prepared key's own infos (k rounded up to whole
                        // limbs), so that is what a caller has to budget
                        // LUT shape: 2^log_domain entries per gadget row, `alpha` rows (dnum rounded up to a power of two):
                        // the table must fit the ring ("f must have length at most N"), so log_domain <= log_n - log2(alpha);
                        // extension factor 1, 2 or 4 (the LWE secret is block-binary, as the extended rotation requires)
                        let alpha = ((size_res - 1).max(1) as usize).next_power_of_two();
                        let log_n = sh.n.trailing_zeros() as usize;
                        let max_log_domain = log_n.saturating_sub(alpha.trailing_zeros() as usize);
                        let ext = [1usize, 1, 2, 4][(sh.seed >> 24) as usize % 4];
                        let declared = m
                            .circuit_bootstrapping_execute_tmp_bytes(block as usize, ext, &ggsw_infos, &cbt_infos)
                            .max(m.circuit_bootstrapping_execute_tmp_bytes(block as usize, ext, &res, &kp));
                        let r = if op == "circuit_bootstrapping_execute_to_constant" {
                            let log_domain = crate::c12::ops::draw::index(sh.seed >> 20, max_log_domain + 1);
                            windowed(declared, w, &mut |s| kp.execute_to_constant(m, &mut res, &lwe, log_domain, ext, s))
                        } else {
                            // the repacking step places 2^log_domain ciphertexts 2^log_gap_out apart: they have to stay below N
                            let log_domain = (sh.seed >> 20) as usize % (max_log_domain.min(2) + 1);
                            let log_gap_out = crate::c12::ops::draw::index(sh.seed >> 28, log_n - log_domain + 1);
                            windowed(declared, w, &mut |s| kp.execute_to_exponent(m, log_gap_out, &mut res, &lwe, log_domain, ext, s))
                        };
                        let mut bytes = Vec::new();
                        poulpy_hal::layouts::WriterTo::write_to(&res, &mut bytes).unwrap();
                        finish(r, declared, vec![bytes])
                    }
                    _ => (Err(format!("unknown op {op}")), None),
                }
            }
        }
    };
}
pub(crate) use core_ops_impl;
