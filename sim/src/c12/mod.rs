//! C12 - declared scratch size suffices, scratch contents never matter.
//!
//! The scratch arena is poulpy's allocator. The simulator hands every op the smallest legal arena
//! (exactly its own `*_tmp_bytes` answer), at the least convenient legal alignment, holding arbitrary
//! bytes, and watches every carve through the arena hook. Oracles: FIT, CLEAN, (MAX follows from
//! FIT + the generous run).
pub mod ops;
pub mod ops2;
pub mod ops3;
pub mod ops4;
pub mod ops5;
pub mod ops6;

use crate::driver::{Acc, CheckImpl, Tier, Viol, announce};
use crate::fhe::{BACKENDS, EvalSpec, PrepSpec, RunOut, RunResult, Window, WindowMode, backend};
use crate::prng::{Rng, mix};
use crate::sched::{Config, Strategy};
use crate::util::{fnv, fnv_mix, panic_class};
use ops::Shape;
use serde_json::{Value, json};

pub struct C12;

#[derive(Clone, Debug)]
pub enum Subject {
    Core { op: String, shape: Shape },
    Eval(EvalSpec),
    Prep(PrepSpec),
}

#[derive(Clone, Debug)]
pub struct Case {
    pub backend: String,
    pub subject: Subject,
    pub fill_a: u64,
    pub fill_b: u64,
    pub misalign: usize,
    pub slack: usize,
    pub sched_seed: u64,
}

impl Case {
    pub fn name(&self) -> String {
        match &self.subject {
            Subject::Core { op, shape } => {
                if op.starts_with("ckks_") && shape.flags & 1 == 1 {
                    format!("{op}+widedst")
                } else if op == "glwe_pack" && shape.flags & 1 == 1 {
                    // the inputs have their own layout (the query is only told the result's)
                    format!("{op}+srclayout")
                } else {
                    op.clone()
                }
            }
            Subject::Eval(s) => {
                if s.threads > 1 {
                    "execute_bdd_circuit_multi_thread".into()
                } else {
                    "execute_bdd_circuit".into()
                }
            }
            Subject::Prep(s) => {
                if s.threads > 1 {
                    "fhe_uint_prepare_custom_multi_thread".into()
                } else {
                    "fhe_uint_prepare_custom".into()
                }
            }
        }
    }
    pub fn to_json(&self) -> Value {
        let (k, s) = match &self.subject {
            Subject::Core { op, shape } => ("core", json!({"op": op, "shape": shape.to_json()})),
            Subject::Eval(e) => ("eval", e.to_json()),
            Subject::Prep(p) => ("prep", p.to_json()),
        };
        json!({"backend": self.backend, "kind": k, "spec": s, "fill_a": self.fill_a, "fill_b": self.fill_b,
               "misalign": self.misalign, "slack": self.slack, "sched_seed": self.sched_seed})
    }
    pub fn from_json(v: &Value) -> Case {
        let s = &v["spec"];
        Case {
            backend: v["backend"].as_str().unwrap().into(),
            subject: match v["kind"].as_str().unwrap() {
                "core" => Subject::Core {
                    op: s["op"].as_str().unwrap().into(),
                    shape: Shape::from_json(&s["shape"]),
                },
                "eval" => Subject::Eval(EvalSpec::from_json(s)),
                _ => Subject::Prep(PrepSpec::from_json(s)),
            },
            fill_a: v["fill_a"].as_u64().unwrap(),
            fill_b: v["fill_b"].as_u64().unwrap(),
            misalign: v["misalign"].as_u64().unwrap() as usize,
            slack: v["slack"].as_u64().unwrap_or(64) as usize,
            sched_seed: v["sched_seed"].as_u64().unwrap(),
        }
    }
}

/// Rank 0 - a trivial ciphertext, body only - is a legal argument of the ciphertext-level operations (the
/// library's decryption handles it explicitly); for key material and key-driven products a rank-0 "key" is
/// degenerate and not part of any contract, so those ops get rank 1 instead.
pub fn rank0_ok(op: &str) -> bool {
    ["glwe_decrypt", "glwe_encrypt_sk", "glwe_encrypt_zero_sk", "glwe_normalize", "glwe_noise", "glwe_rotate", "glwe_lsh", "glwe_rsh", "glwe_mul_xp", "glwe_compressed_encrypt_sk"]
        .iter()
        .any(|p| op.starts_with(p))
}

pub fn fix_rank0(op: &str, shape: &mut Shape) {
    if !rank0_ok(op) {
        shape.rank_in = shape.rank_in.max(1);
        shape.rank_out = shape.rank_out.max(1);
    }
}

pub fn random_shape(rng: &mut Rng, thorough: bool) -> Shape {
    // one draw in twelve (one in six in the thorough tier) leaves the small grid: larger rings, many
    // limbs, extreme radices, deep gadget decompositions, rank 4 - thresholds a small grid never crosses
    let wide = rng.chance(if thorough { 170 } else { 85 });
    let n = if wide {
        *rng.pick(if thorough { &[4u32, 32, 64, 128, 256][..] } else { &[4u32, 32, 64, 128][..] })
    } else if thorough {
        *rng.pick(&[8u32, 16, 32, 64])
    } else {
        *rng.pick(&[8u32, 16, 32])
    };
    let b = if wide && rng.chance(500) { *rng.pick(&[4u32, 5, 6, 19, 21, 24, 28]) } else { rng.range(8, 17) as u32 };
    // radix patterns: all equal, exactly two of the three equal (each way), all different - the
    // cross-radix branches of ops and queries are keyed on different pairs
    let other = |rng: &mut Rng, not: &[u32]| -> u32 {
        loop {
            let v = (b as i64 + rng.range(0, 6) as i64 - 3).clamp(if wide { 3 } else { 6 }, if wide { 30 } else { 18 }) as u32;
            if !not.contains(&v) {
                return v;
            }
        }
    };
    let (b_in, b_key, b_res) = match rng.below(100) {
        0..=29 => (b, b, b),
        30..=44 => {
            let o = other(rng, &[b]);
            (b, b, o)
        }
        45..=59 => {
            let o = other(rng, &[b]);
            (b, o, b)
        }
        60..=74 => {
            let o = other(rng, &[b]);
            (o, b, b)
        }
        _ => {
            let x = other(rng, &[b]);
            let y = other(rng, &[b, x]);
            (b, x, y)
        }
    };
    let size_in = if wide { rng.range(1, 9) as u32 } else { rng.range(1, 4) as u32 };
    let k_in = b_in * (size_in - 1) + rng.range(1, b_in as u64) as u32;
    let k_res = if rng.chance(500) {
        k_in
    } else {
        let s = if wide { rng.range(1, 10) as u32 } else { rng.range(1, 5) as u32 };
        b_res * (s - 1) + rng.range(1, b_res as u64) as u32
    };
    let dsize = if wide { rng.range(1, 5) as u32 } else { rng.range(1, 3) as u32 };
    let dnum = k_in.div_ceil(b_key * dsize).max(1);
    let min_key = dnum * dsize * b_key;
    let k_key = match rng.below(3) {
        0 => k_in + b_key * dsize,
        1 => min_key,
        _ => min_key + rng.range(0, 3 * b_key as u64) as u32,
    }
    .max(min_key)
    .max(b_key * dsize + 1);
    Shape {
        n,
        // rank 0 (a trivial ciphertext: body only) is legal for the GLWE-level ops; one draw in twenty-five
        rank_in: if rng.chance(40) { 0 } else if wide { rng.range(1, 4) as u32 } else { rng.range(1, 3) as u32 },
        rank_out: if rng.chance(40) { 0 } else if wide { rng.range(1, 4) as u32 } else { rng.range(1, 3) as u32 },
        b_res,
        k_res,
        b_in,
        k_in,
        b_key,
        k_key,
        dsize,
        n_lwe: if wide { rng.range(1, (n / 2 + 3) as u64) as u32 } else { rng.range(3, 9) as u32 },
        extra: rng.below(8) as u32,
        flags: rng.below(2) as u32,
        seed: rng.next(),
    }
}

fn run(case: &Case, w: &Window, sched: bool) -> RunResult {
    let b = backend(&case.backend);
    let cfg = |strategy: Strategy| {
        Some(Config {
            seed: case.sched_seed,
            strategy,
            step_budget: 500_000,
            arena: None,
        })
    };
    // a panic while building the inputs (layout asserts of alloc functions) makes the shape inadmissible
    let r = crate::util::catch(|| match &case.subject {
        Subject::Core { op, shape } => b.core_op(op, shape, w),
        Subject::Eval(s) => b.eval(s, w, cfg(if sched { Strategy::Random(300) } else { Strategy::Serial })),
        Subject::Prep(s) => b.prep(s, w, cfg(if sched { Strategy::Random(300) } else { Strategy::Serial })),
    });
    match r {
        Ok(x) => x,
        Err(p) => (Err(format!("setup: {p}")), None),
    }
}

pub struct CaseOutcome {
    pub admissible: bool,
    pub violation: Option<(String, String, String)>,
    pub hash: u64,
    pub declared: usize,
    pub hwm: usize,
    pub tight: bool,
    pub short_fails: Option<bool>,
    /// REPEAT window: Some(true) ran, Some(false) the reference refuses a second call
    pub repeat: Option<bool>,
}

fn outs_hash(o: &RunOut) -> u64 {
    o.outs.iter().fold(0u64, |a, x| fnv_mix(a, fnv(x)))
}

pub fn execute(case: &Case) -> CaseOutcome {
    let mut out = CaseOutcome {
        admissible: false,
        violation: None,
        hash: 0,
        declared: 0,
        hwm: 0,
        tight: false,
        short_fails: None,
        repeat: None,
    };
    // reference: generous window, zero filled
    let (g, grep) = run(
        case,
        &Window {
            mode: WindowMode::Generous,
            fill_seed: 0,
        },
        false,
    );
    let g = match g {
        Ok(g) => g,
        Err(_) => return out, // shape not admissible for this op (precondition assert): nothing to decide
    };
    out.admissible = true;
    out.declared = g.declared;
    let hwm = grep.as_ref().map(|r| r.max_take_end).unwrap_or(0);
    out.hwm = hwm;
    out.tight = g.declared >= hwm && g.declared - hwm < 64;
    out.hash = outs_hash(&g);
    if let Some(r) = &grep
        && let Some(a) = &r.arena_violation
    {
        out.violation = Some(("FIT".into(), "arena_contract".into(), format!("{} (generous window): {a}", case.name())));
        return out;
    }
    if !g.canary_ok {
        out.violation = Some(("FIT".into(), "wrote_outside_window".into(), format!("{}: bytes outside the scratch window were modified (generous window)", case.name())));
        return out;
    }
    let modes: Vec<(&str, Window, bool)> = vec![
        (
            "exact/zero",
            Window {
                mode: WindowMode::Exact,
                fill_seed: 0,
            },
            false,
        ),
        (
            "exact/poison_a",
            Window {
                mode: WindowMode::Exact,
                fill_seed: case.fill_a,
            },
            true,
        ),
        (
            "exact_misaligned/poison_b",
            Window {
                mode: WindowMode::ExactMisaligned(case.misalign),
                fill_seed: case.fill_b,
            },
            false,
        ),
        (
            "generous/poison_b",
            Window {
                mode: WindowMode::Generous,
                fill_seed: case.fill_b,
            },
            true,
        ),
        // MAX clause: a scratch larger than declared (by an amount that need not be a multiple of the
        // alignment, nor of the thread count) must serve as well
        (
            "declared_plus_slack/poison_a",
            Window {
                mode: WindowMode::Slack(case.slack),
                fill_seed: case.fill_a,
            },
            false,
        ),
    ];
    for (label, w, sched) in &modes {
        let (r, rep) = run(case, w, *sched);
        match r {
            Err(p) => {
                let exact = !matches!(w.mode, WindowMode::Generous | WindowMode::Slack(_));
                let slack = matches!(w.mode, WindowMode::Slack(_));
                out.violation = Some((
                    if exact { "FIT" } else if slack { "MAX" } else { "CLEAN" }.into(),
                    if exact {
                        "panic_with_declared_size".to_string()
                    } else if slack {
                        "panic_with_larger_scratch".to_string()
                    } else {
                        format!("panic_with_poison:{}", panic_class(&p))
                    },
                    format!(
                        "{} [{label}]: declared {} bytes (high-water mark with a generous window: {} bytes) -> {p}",
                        case.name(),
                        g.declared,
                        hwm
                    ),
                ));
                return out;
            }
            Ok(o) => {
                if let Some(rp) = &rep
                    && let Some(a) = &rp.arena_violation
                {
                    out.violation = Some(("FIT".into(), "arena_contract".into(), format!("{} [{label}]: {a}", case.name())));
                    return out;
                }
                if !o.canary_ok {
                    out.violation = Some(("FIT".into(), "wrote_outside_window".into(), format!("{} [{label}]: bytes outside the scratch window were modified", case.name())));
                    return out;
                }
                if o.outs != g.outs {
                    let which = o.outs.iter().zip(g.outs.iter()).position(|(a, b)| a != b).unwrap_or(0);
                    out.violation = Some((
                        "CLEAN".into(),
                        "result_depends_on_scratch".into(),
                        format!("{} [{label}]: output {which} differs from the run with a zeroed generous scratch", case.name()),
                    ));
                    return out;
                }
            }
        }
    }
    // REPEAT (inventory ops, every other case): the call made twice in a row on the same exact, poisoned
    // window must give what it gives twice in a row on a zeroed generous one. A second call that the
    // operation's own contract refuses (stateful packers) fails in the reference too and is skipped.
    if matches!(case.subject, Subject::Core { .. }) && case.sched_seed % 2 == 0 {
        let (r2, _) = run(
            case,
            &Window {
                mode: WindowMode::GenerousTwice,
                fill_seed: 0,
            },
            false,
        );
        if let Ok(g2) = r2 {
            let (r, rep) = run(
                case,
                &Window {
                    mode: WindowMode::ExactTwice,
                    fill_seed: case.fill_b,
                },
                false,
            );
            match r {
                Err(p) => {
                    out.violation = Some((
                        "FIT".into(),
                        "second_call_panics_with_declared_size".into(),
                        format!("{} [exact_twice/poison_b]: the same call repeated on the same window of {} declared bytes -> {p}", case.name(), g.declared),
                    ));
                    return out;
                }
                Ok(o) => {
                    if let Some(a) = rep.as_ref().and_then(|r| r.arena_violation.as_ref()) {
                        out.violation = Some(("FIT".into(), "arena_contract".into(), format!("{} [exact_twice/poison_b]: {a}", case.name())));
                        return out;
                    }
                    if !o.canary_ok {
                        out.violation = Some(("FIT".into(), "wrote_outside_window".into(), format!("{} [exact_twice/poison_b]: bytes outside the scratch window were modified", case.name())));
                        return out;
                    }
                    if o.outs != g2.outs {
                        let which = o.outs.iter().zip(g2.outs.iter()).position(|(a, b)| a != b).unwrap_or(0);
                        out.violation = Some((
                            "CLEAN".into(),
                            "second_call_depends_on_first".into(),
                            format!("{} [exact_twice/poison_b]: output {which} of the repeated call differs from the repeated call on a zeroed generous scratch", case.name()),
                        ));
                        return out;
                    }
                }
            }
            out.repeat = Some(true);
        } else {
            out.repeat = Some(false);
        }
    }
    // sensitivity probe: one byte less than the high-water mark must not fit
    if hwm > 0 && hwm <= g.declared {
        let short = g.declared - hwm + 1;
        let (r, _) = run(
            case,
            &Window {
                mode: WindowMode::Short(short),
                fill_seed: 0,
            },
            false,
        );
        out.short_fails = Some(r.is_err());
    }
    out
}

pub fn generate(seed: u64, idx: u64, thorough: bool) -> Case {
    let mut rng = Rng::new(mix(seed, 0xC12, idx));
    let backend_name = BACKENDS[(idx % 4) as usize];
    let b = backend(backend_name);
    let all_ops = b.core_ops();
    // cheap single-call ops are drawn four times as often as the heavy ones (32-bit word circuits,
    // circuit bootstrapping), which cost tens of milliseconds per window
    let mut ops: Vec<&'static str> = Vec::new();
    for o in all_ops {
        let heavy = o.starts_with("word_") || o.starts_with("circuit_bootstrapping");
        for _ in 0..(if heavy { 1 } else { 4 }) {
            ops.push(o);
        }
    }
    let slot = (idx / 4) % (ops.len() as u64 + 6);
    let ns: &[u32] = if backend_name == "NTT120Avx" { &[16, 32] } else { &[8, 16, 32] };
    let subject = if (slot as usize) < ops.len() {
        let mut shape = random_shape(&mut rng, thorough);
        if backend_name == "NTT120Avx" && shape.n < 16 {
            shape.n = 16;
        }
        if backend_name == "FFT64Avx" && shape.n < 8 {
            shape.n = 8;
        }
        fix_rank0(ops[slot as usize], &mut shape);
        Subject::Core {
            op: ops[slot as usize].to_string(),
            shape,
        }
    } else if (slot as usize) < ops.len() + 3 {
        let outputs = rng.range(1, 8) as usize;
        Subject::Eval(EvalSpec {
            n: *rng.pick(ns),
            rank: rng.range(1, 2) as u32,
            circuit_seed: rng.next(),
            outputs,
            out_extra: 0,
            // 1, 2, counts that do not divide / exceed the 1..8 outputs, above 32
            threads: *rng.pick(&[1usize, 1, 2, 3, 4, 7, 9, 33]),
            out_poison: 0,
        })
    } else {
        let n = if rng.chance(250) { *rng.pick(ns) } else { *rng.pick(&ns[..2]) };
        let word_bits = if n >= 32 && rng.chance(250) {
            32
        } else if n >= 16 && rng.chance(300) {
            16
        } else {
            8
        };
        let bit_start = rng.below(word_bits as u64) as usize;
        let bit_count = rng.range(1, (word_bits as usize - bit_start).min(4) as u64) as usize;
        Subject::Prep(PrepSpec {
            n,
            rank: if rng.chance(250) { 2 } else { 1 },
            word_bits,
            bit_start,
            bit_count,
            // (1..4 bits to prepare: 2, a count that does not divide them, more threads than bits, above 32)
            threads: if slot as usize == ops.len() + 3 { 1 } else { *rng.pick(&[2usize, 3, 4, 5, 33]) },
            via_struct: false,
        })
    };
    Case {
        backend: backend_name.to_string(),
        subject,
        fill_a: rng.next() | 1,
        fill_b: rng.next() | 1,
        misalign: 8 * rng.range(1, 7) as usize,
        slack: *rng.pick(&[8usize, 56, 64, 72, 128, 192, 200, 1000, 4160]),
        sched_seed: rng.next(),
    }
}

const BATCH: u64 = 16;

impl CheckImpl for C12 {
    fn id(&self) -> &'static str {
        "C12"
    }
    fn level(&self) -> &'static str {
        "fault_enumeration"
    }
    fn units(&self, tier: Tier, _seed: u64) -> u64 {
        match tier {
            Tier::Quick => 64_000 / BATCH,
            Tier::Thorough => 320_000 / BATCH,
        }
    }
    fn run_unit(&mut self, tier: Tier, seed: u64, unit: u64, acc: &mut Acc, viols: &mut Vec<Viol>) {
        crate::sched::install_hooks();
        let mut uh = 0u64;
        for i in 0..BATCH {
            let idx = unit * BATCH + i;
            let case = generate(seed, idx, tier == Tier::Thorough);
            announce(unit, &|| json!({"unit": unit, "replay": case.to_json()}).to_string());
            let live0 = crate::alloc::LIVE.load(std::sync::atomic::Ordering::Relaxed);
            let o = execute(&case);
            acc.evaluations += 1;
            let name = case.name();
            if std::env::var("SIM_TRACE_LEAKS").is_ok() {
                let d = crate::alloc::LIVE.load(std::sync::atomic::Ordering::Relaxed) - live0;
                if d > 100_000 {
                    eprintln!("live +{d} bytes after {name} on {}", case.backend);
                }
            }
            if !o.admissible {
                acc.bump(&format!("inadmissible.{name}"));
                continue;
            }
            uh = fnv_mix(uh, o.hash);
            acc.bump(&format!("covered.{name}"));
            acc.bump(&format!("backend.{}", case.backend));
            if o.tight {
                acc.bump("probe.window_consumed_to_within_63_bytes");
            }
            if o.declared > o.hwm + 63 {
                acc.bump("probe.query_over_estimates_by_64_or_more");
            }
            match o.short_fails {
                Some(true) => acc.bump("probe.one_byte_short_window_panics"),
                Some(false) => acc.bump("probe.one_byte_short_window_still_fits"),
                None => {}
            }
            match o.repeat {
                Some(true) => acc.bump("probe.repeat_window_ran"),
                Some(false) => acc.bump("probe.repeat_refused_by_the_operation_itself"),
                None => {}
            }
            let class = match &case.subject {
                Subject::Core { shape, .. } => format!(
                    "{}|n{}|r{}{}|ds{}|{}{}{}",
                    name,
                    shape.n,
                    shape.rank_in,
                    shape.rank_out,
                    shape.dsize,
                    (shape.b_in != shape.b_key) as u8,
                    (shape.b_res != shape.b_in) as u8,
                    (shape.k_key > shape.k_res) as u8
                ),
                Subject::Eval(s) => format!("{name}|n{}|t{}", s.n, s.threads),
                Subject::Prep(s) => format!("{name}|n{}|w{}|t{}", s.n, s.word_bits, s.threads),
            };
            acc.set_insert("op_shape_classes", fnv(format!("{class}|{}", case.backend).as_bytes()));
            if acc.samples.len() < 5 && i % 5 == 0 {
                let mut s = case.to_json();
                s["observed"] = json!({"declared": o.declared, "high_water_mark": o.hwm});
                acc.samples.push(s);
            }
            if let Some(v) = &o.violation {
                // ring degrees below 8 (limbs of 32 bytes): one subject per backend - there the size queries of most of
                // the library add up pieces that are not multiples of the 64-byte carve alignment, a single known family
                let tiny = matches!(&case.subject, Subject::Core { shape, .. } if shape.n < 8);
                let subject = if tiny { format!("tinyring/{}", case.backend) } else { format!("{name}/{}", case.backend) };
                if !viols.iter().any(|x| x.oracle == v.0 && x.class == v.1 && x.subject == subject) {
                    viols.push(Viol {
                        unit,
                        oracle: v.0.clone(),
                        class: v.1.clone(),
                        subject,
                        detail: v.2.clone(),
                        replay: case.to_json(),
                    });
                }
            }
        }
        acc.log_unit(unit, uh);
    }
    fn replay(&mut self, replay: &Value) -> Option<(String, String, String)> {
        crate::sched::install_hooks();
        let case = Case::from_json(replay);
        let o = execute(&case);
        if !o.admissible {
            crate::driver::harness_error("replay: the shape is not admissible for the op any more (reference run panics)");
        }
        o.violation
    }
    fn describe(&self, _tier: Tier, acc: &Acc) -> Value {
        let classes = acc.sets.get("op_shape_classes").map(|s| s.len()).unwrap_or(0) as u64;
        let covered: Vec<String> = acc.counters.keys().filter(|k| k.starts_with("covered.")).map(|k| k[8..].to_string()).collect();
        json!({
            "distinct_nontrivial": classes,
            "rule": "One evaluation = one (operation, argument shape, backend) case executed with six scratch windows: generous/zeroed (reference), exactly the op's own *_tmp_bytes answer (zeroed; poisoned; start misaligned by 8..56 bytes and poisoned), generous/poisoned, declared+slack/poisoned (MAX clause: a larger scratch must serve as well); for the threaded entry points 'exact' is threads x per-thread size and the poisoned runs use a random schedule. Every carve is reported by the arena hook. distinct_nontrivial = distinct (operation, ring degree, ranks, dsize, radix-mismatch flags, key-wider-than-result flag, thread count, backend) classes among admissible cases (a case is admissible when the reference run completes).",
            "assumptions": [
                "coverage is the inventory listed under ops_covered, not all ~120 (operation, tmp_bytes) pairs",
                "shapes rejected by an op's own precondition asserts are skipped (counted under inadmissible.*)",
                "inputs are random limbs / keys prepared from random data: the ops are arithmetic and do not branch on plaintext values"
            ],
            "extra": {
                "ops_covered": covered,
                "components": {"real": ["every listed op and its *_tmp_bytes query on four backends", "Scratch / take_slice arena"],
                               "stub": ["scratch provisioning (exact-size canary-guarded window, chosen alignment and fill)", "thread schedule for the multi-thread entry points"]},
                "simulated_time": "logical: arena carve count",
            }
        })
    }
}

/// Debug aid: runs `count` random shapes of one op on one backend and prints one line per case.
pub fn sweep(backend_name: &str, op: &str, count: u64) {
    crate::sched::install_hooks();
    crate::util::install_quiet_panic_hook();
    for i in 0..count {
        let mut rng = Rng::new(mix(7, 7, i));
        let mut shape = random_shape(&mut rng, false);
        if let Some(n) = std::env::var("SWEEP_N").ok().and_then(|x| x.parse().ok()) {
            shape.n = n;
        }
        fix_rank0(op, &mut shape);
        let case = Case {
            backend: backend_name.into(),
            subject: Subject::Core { op: op.into(), shape: shape.clone() },
            fill_a: rng.next() | 1,
            fill_b: rng.next() | 1,
            misalign: 8,
            slack: *rng.pick(&[8usize, 64, 72, 192, 4160]),
            sched_seed: 1,
        };
        let o = execute(&case);
        // SWEEP_WHY=1: why the reference run rejected the shape (set-up panic / entry assert)
        if !o.admissible && std::env::var("SWEEP_WHY").is_ok() {
            let w = Window { mode: WindowMode::Generous, fill_seed: 0 };
            if let (Err(e), _) = run(&case, &w, false) {
                println!("  why: {}", e.chars().take(200).collect::<String>());
            }
        }
        let v = o.violation.as_ref().map(|v| format!("{}:{}", v.0, v.1)).unwrap_or_else(|| "ok".into());
        if std::env::var("SWEEP_DETAIL").is_ok()
            && let Some(vv) = &o.violation
        {
            println!("  detail: {}", vv.2);
            println!("  replay: {}", case.to_json());
        }
        println!(
            "{} adm={} decl={} hwm={} n={} r={}{} bin={} bkey={} bres={} kin={} kkey={} kres={} ds={}",
            v, o.admissible, o.declared, o.hwm, shape.n, shape.rank_in, shape.rank_out, shape.b_in, shape.b_key, shape.b_res,
            shape.k_in, shape.k_key, shape.k_res, shape.dsize
        );
    }
}

/// Debug aid: prints the allocator's live-byte counter (see alloc.rs) - used with `ps` to tell a leak
/// from allocator fragmentation.
pub fn live_bytes() -> isize {
    crate::alloc::LIVE.load(std::sync::atomic::Ordering::Relaxed)
}
