//! Second part of the C12 op inventory (same conventions as ops.rs): encrypted-word operations
//! (single and multi-thread variants with their own size queries) and LWE-side key material.
macro_rules! core_ops2_impl {
    ($be:ty) => {
        pub mod ops2 {
            use super::ops::{finish_pub as finish, src_pub as src, windowed};
            use super::*;
            use crate::c12::ops::Shape;
            use poulpy_bin_fhe::bdd_arithmetic::{Add, And, Or, Sll, Slt, Sltu, Sra, Srl, Sub, Xor};
            use poulpy_core::LWESwitchingKeyEncrypt;
            use poulpy_core::layouts::{Dnum, LWESwitchingKey, LWESwitchingKeyLayout};

            pub const OPS2: &[&str] = &[
                "lwe_switching_key_encrypt_sk",
                "word_add",
                "word_sub",
                "word_and",
                "word_or",
                "word_xor",
                "word_sll",
                "word_srl",
                "word_sra",
                "word_slt",
                "word_sltu",
                "word_add_multi_thread",
                "word_sub_multi_thread",
                "word_xor_multi_thread",
                "word_sll_multi_thread",
                "word_sltu_multi_thread",
                "hal_scratch_split_mut",
            ];

            pub fn core_op2(op: &str, sh: &Shape, w: &Window) -> Option<RunResult> {
                if op == "lwe_switching_key_encrypt_sk" {
                    let c = ctx(sh.n, 1);
                    let m = &c.module;
                    // two LWE dimensions, deliberately different most of the time
                    let n_in = sh.n_lwe.min(sh.n).max(1);
                    let n_out = ((sh.n_lwe + 1 + sh.extra) % sh.n).max(1);
                    let infos = LWESwitchingKeyLayout {
                        n: Degree(sh.n),
                        base2k: Base2K(sh.b_key),
                        k: TorusPrecision(sh.k_key),
                        dnum: Dnum(sh.k_key.div_ceil(sh.b_key).saturating_sub(1).max(1)),
                    };
                    let enc = EncryptionLayout::new_from_default_sigma(infos).unwrap();
                    let mut s_in: LWESecret<Vec<u8>> = LWESecret::alloc(Degree(n_in));
                    s_in.fill_binary_prob(0.5, &mut src(sh.seed, 1));
                    let mut s_out: LWESecret<Vec<u8>> = LWESecret::alloc(Degree(n_out));
                    s_out.fill_binary_prob(0.5, &mut src(sh.seed, 2));
                    let mut key: LWESwitchingKey<Vec<u8>> = LWESwitchingKey::alloc_from_infos(&infos);
                    let declared = m.lwe_switching_key_encrypt_sk_tmp_bytes(&infos);
                    let r = windowed(declared, w, &mut |s| {
                        m.lwe_switching_key_encrypt_sk(&mut key, &s_in, &s_out, &enc, &mut src(sh.seed, 3), &mut src(sh.seed, 4), s)
                    });
                    let mut bytes = Vec::new();
                    poulpy_hal::layouts::WriterTo::write_to(&key, &mut bytes).unwrap();
                    return Some(finish(r, declared, vec![bytes]));
                }
                if op == "hal_scratch_split_mut" {
                    // The arena API the multi-thread entry points are built on, driven directly with window
                    // sizes that are not multiples of the 64-byte alignment (no in-tree caller does that):
                    // the n windows and the remainder must be pairwise disjoint usable ranges inside the parent.
                    use poulpy_hal::api::{ScratchAvailable, TakeSlice};
                    // 1..6 windows, or (one draw in eight) more than 32
                    let n = if (sh.seed >> 20) % 8 == 0 { 33 + (sh.seed >> 23) as usize % 8 } else { 1 + (sh.extra as usize % 6) };
                    let len = if sh.flags & 1 == 0 {
                        (sh.k_res as usize * 8 + sh.b_res as usize + (sh.seed % 97) as usize) % 700 + 1
                    } else {
                        64 * (1 + sh.k_in as usize % 9)
                    };
                    let tail = (sh.k_key as usize * 3 + (sh.seed >> 8) as usize % 64) % 200;
                    let declared = n * len.next_multiple_of(64) + tail;
                    let mut note: Option<String> = None;
                    let mut lens: Vec<u8> = Vec::new();
                    let mut r = windowed(declared, w, &mut |s| {
                        fn range<B: poulpy_hal::layouts::Backend>(x: &mut Scratch<B>) -> (usize, usize)
                        where
                            Scratch<B>: ScratchAvailable + TakeSlice,
                        {
                            let a = x.available();
                            let (sl, _) = x.take_slice::<u8>(a);
                            (sl.as_ptr() as usize, sl.len())
                        }
                        let parent = range(s);
                        let (mut wins, rem) = s.split_mut(n, len);
                        let mut ranges: Vec<(usize, usize)> = wins.iter_mut().map(|x| range(x)).collect();
                        ranges.push(range(rem));
                        for (i, (a, l)) in ranges.iter().enumerate() {
                            let what = if i == n { "the remainder".to_string() } else { format!("window {i}") };
                            if i < n && *l < len.min(parent.1) && note.is_none() {
                                // every window is a carve of exactly `len` bytes at an aligned start: all of them usable
                                note = Some(format!("split_mut({n}, {len}): {what} holds only {l} usable bytes"));
                            }
                            if *l > 0 && (*a < parent.0 || a + l > parent.0 + parent.1) && note.is_none() {
                                note = Some(format!("split_mut({n}, {len}): {what} [{}, +{l}) lies outside the parent of {} bytes", *a as i64 - parent.0 as i64, parent.1));
                            }
                            for (j, (b, m)) in ranges.iter().enumerate().take(i) {
                                if *l > 0 && *m > 0 && a < &(b + m) && b < &(a + l) && note.is_none() {
                                    let other = if j == n { "the remainder".to_string() } else { format!("window {j}") };
                                    note = Some(format!("split_mut({n}, {len}): {what} [{}, +{l}) overlaps {other} [{}, +{m})", *a as i64 - parent.0 as i64, *b as i64 - parent.0 as i64));
                                }
                            }
                        }
                        // every owner fills its bytes, then everybody re-reads
                        for (i, x) in wins.iter_mut().enumerate() {
                            let a = x.available();
                            x.take_slice::<u8>(a).0.fill(i as u8 + 1);
                        }
                        let a = rem.available();
                        rem.take_slice::<u8>(a).0.fill(0xEE);
                        for (i, x) in wins.iter_mut().enumerate() {
                            let a = x.available();
                            if x.take_slice::<u8>(a).0.iter().any(|b| *b != i as u8 + 1) && note.is_none() {
                                note = Some(format!("split_mut({n}, {len}): bytes of window {i} were overwritten through another window"));
                            }
                        }
                        lens = ranges.iter().take(n).map(|r| (r.1 >= len) as u8).collect();
                    });
                    if note.is_some() {
                        r.1.arena_violation = note;
                    }
                    return Some(finish(r, declared, vec![lens]));
                }
                if !op.starts_with("word_") {
                    return None;
                }
                // encrypted 32-bit words need N >= 32; the bundle of keys is cached per (backend, N)
                let n = if sh.n >= 64 { 64 } else { 32 };
                let c = ctx(n, 1);
                let b = bdd_ctx(c);
                let m = &c.module;
                let mut big: ScratchOwned<BE> = ScratchOwned::alloc(1 << 22);
                let enc = EncryptionLayout::new_from_default_sigma(c.ggsw_infos).unwrap();
                let mut a: FheUintPrepared<DeviceBuf<BE>, u32, BE> = FheUintPrepared::alloc_from_infos(m, &c.ggsw_infos);
                let mut bb: FheUintPrepared<DeviceBuf<BE>, u32, BE> = FheUintPrepared::alloc_from_infos(m, &c.ggsw_infos);
                a.encrypt_sk(m, sh.seed as u32, &c.sk_prep, &enc, &mut src(sh.seed, 3), &mut src(sh.seed, 4), big.borrow());
                bb.encrypt_sk(m, (sh.seed >> 32) as u32, &c.sk_prep, &enc, &mut src(sh.seed, 5), &mut src(sh.seed, 6), big.borrow());
                let mut res: FheUint<Vec<u8>, u32> = FheUint::alloc_from_infos(&c.glwe_infos);
                let multi = op.ends_with("_multi_thread");
                // 32 output bits: 1, 2, a count that does not divide them, 32, more than 32, a few
                let threads = if multi { crate::c12::ops::draw::threads(sh.seed >> 20, 32) } else { 1 };
                let name = op.trim_start_matches("word_").trim_end_matches("_multi_thread");
                macro_rules! word {
                    ($single:ident, $multi:ident, $tb:ident, $mtb:ident) => {{
                        if multi {
                            let declared = res.$mtb(m, threads, &c.glwe_infos, &c.ggsw_infos, &b.key);
                            let r = windowed(declared, w, &mut |s| res.$multi(threads, m, &a, &bb, &b.key, s));
                            (r, declared)
                        } else {
                            let declared = res.$tb(m, &c.glwe_infos, &c.ggsw_infos, &b.key);
                            let r = windowed(declared, w, &mut |s| res.$single(m, &a, &bb, &b.key, s));
                            (r, declared)
                        }
                    }};
                }
                let (r, declared) = match name {
                    "add" => word!(add, add_multi_thread, add_tmp_bytes, add_multi_thread_tmp_bytes),
                    "sub" => word!(sub, sub_multi_thread, sub_tmp_bytes, sub_multi_thread_tmp_bytes),
                    "and" => word!(and, and_multi_thread, and_tmp_bytes, and_multi_thread_tmp_bytes),
                    "or" => word!(or, or_multi_thread, or_tmp_bytes, or_multi_thread_tmp_bytes),
                    "xor" => word!(xor, xor_multi_thread, xor_tmp_bytes, xor_multi_thread_tmp_bytes),
                    "sll" => word!(sll, sll_multi_thread, sll_tmp_bytes, sll_multi_thread_tmp_bytes),
                    "srl" => word!(srl, srl_multi_thread, srl_tmp_bytes, srl_multi_thread_tmp_bytes),
                    "sra" => word!(sra, sra_multi_thread, sra_tmp_bytes, sra_multi_thread_tmp_bytes),
                    "slt" => word!(slt, slt_multi_thread, slt_tmp_bytes, slt_multi_thread_tmp_bytes),
                    "sltu" => word!(sltu, sltu_multi_thread, sltu_tmp_bytes, sltu_multi_thread_tmp_bytes),
                    _ => return None,
                };
                let bytes: Vec<u8> = {
                    use poulpy_core::layouts::GLWEToRef;
                    let g = res.to_ref();
                    let d: &[u8] = g.data().data;
                    d.to_vec()
                };
                Some(finish(r, declared, vec![bytes]))
            }
        }
    };
}
pub(crate) use core_ops2_impl;
