//! Second part of the C12 op inventory (same conventions as ops.rs): encrypted-word operations
//! (single and multi-thread variants with their own size queries) and LWE-side key material.
macro_rules! core_ops2_impl {
    ($be:ty) => {
        pub mod ops2 {
            use super::ops::{finish_pub as finish, src_pub as src, windowed};
            use super::*;
            use crate::c12::ops::Shape;
            use poulpy_bin_fhe::bdd_arithmetic::{Add, And, Or, Sll, Slt, Sltu, Sra, Srl, Sub, Xor};
            use poulpy_core::LWESwitchingKeyEncrypt;
            use poulpy_core::layouts::{Dnum, LWESwitchingKey, LWESwitchingKeyLayout};

            pub const OPS2: &[&str] = &[
                "lwe_switching_key_encrypt_sk",
                "word_add",
                "word_sub",
                "word_and",
                "word_or",
                "word_xor",
                "word_sll",
                "word_srl",
                "word_sra",
                "word_slt",
                "word_sltu",
                "word_add_multi_thread",
                "word_sub_multi_thread",
                "word_xor_multi_thread",
                "word_sll_multi_thread",
                "word_sltu_multi_thread",
            ];

            pub fn core_op2(op: &str, sh: &Shape, w: &Window) -> Option<RunResult> {
                if op == "lwe_switching_key_encrypt_sk" {
                    let c = ctx(sh.n, 1);
                    let m = &c.module;
                    // two LWE dimensions, deliberately different most of the time
                    let n_in = sh.n_lwe.min(sh.n).max(1);
                    let n_out = ((sh.n_lwe + 1 + sh.extra) % sh.n).max(1);
                    let infos = LWESwitchingKeyLayout {
                        n: Degree(sh.n),
                        base2k: Base2K(sh.b_key),
                        k: TorusPrecision(sh.k_key),
                        dnum: Dnum(sh.k_key.div_ceil(sh.b_key).saturating_sub(1).max(1)),
                    };
                    let enc = EncryptionLayout::new_from_default_sigma(infos).unwrap();
                    let mut s_in: LWESecret<Vec<u8>> = LWESecret::alloc(Degree(n_in));
                    s_in.fill_binary_prob(0.5, &mut src(sh.seed, 1));
                    let mut s_out: LWESecret<Vec<u8>> = LWESecret::alloc(Degree(n_out));
                    s_out.fill_binary_prob(0.5, &mut src(sh.seed, 2));
                    let mut key: LWESwitchingKey<Vec<u8>> = LWESwitchingKey::alloc_from_infos(&infos);
                    let declared = m.lwe_switching_key_encrypt_sk_tmp_bytes(&infos);
                    let r = windowed(declared, w, &mut |s| {
                        m.lwe_switching_key_encrypt_sk(&mut key, &s_in, &s_out, &enc, &mut src(sh.seed, 3), &mut src(sh.seed, 4), s)
                    });
                    let mut bytes = Vec::new();
                    poulpy_hal::layouts::WriterTo::write_to(&key, &mut bytes).unwrap();
                    return Some(finish(r, declared, vec![bytes]));
                }
                if !op.starts_with("word_") {
                    return None;
                }
                // encrypted 32-bit words need N >= 32; the bundle of keys is cached per (backend, N)
                let n = if sh.n >= 64 { 64 } else { 32 };
                let c = ctx(n, 1);
                let b = bdd_ctx(c);
                let m = &c.module;
                let mut big: ScratchOwned<BE> = ScratchOwned::alloc(1 << 22);
                let enc = EncryptionLayout::new_from_default_sigma(c.ggsw_infos).unwrap();
                let mut a: FheUintPrepared<DeviceBuf<BE>, u32, BE> = FheUintPrepared::alloc_from_infos(m, &c.ggsw_infos);
                let mut bb: FheUintPrepared<DeviceBuf<BE>, u32, BE> = FheUintPrepared::alloc_from_infos(m, &c.ggsw_infos);
                a.encrypt_sk(m, sh.seed as u32, &c.sk_prep, &enc, &mut src(sh.seed, 3), &mut src(sh.seed, 4), big.borrow());
                bb.encrypt_sk(m, (sh.seed >> 32) as u32, &c.sk_prep, &enc, &mut src(sh.seed, 5), &mut src(sh.seed, 6), big.borrow());
                let mut res: FheUint<Vec<u8>, u32> = FheUint::alloc_from_infos(&c.glwe_infos);
                let multi = op.ends_with("_multi_thread");
                let threads = if multi { 2 + (sh.extra as usize % 4) + if sh.rank_in == 3 { 7 } else { 0 } } else { 1 };
                let name = op.trim_start_matches("word_").trim_end_matches("_multi_thread");
                macro_rules! word {
                    ($single:ident, $multi:ident, $tb:ident, $mtb:ident) => {{
                        if multi {
                            let declared = res.$mtb(m, threads, &c.glwe_infos, &c.ggsw_infos, &b.key);
                            let r = windowed(declared, w, &mut |s| res.$multi(threads, m, &a, &bb, &b.key, s));
                            (r, declared)
                        } else {
                            let declared = res.$tb(m, &c.glwe_infos, &c.ggsw_infos, &b.key);
                            let r = windowed(declared, w, &mut |s| res.$single(m, &a, &bb, &b.key, s));
                            (r, declared)
                        }
                    }};
                }
                let (r, declared) = match name {
                    "add" => word!(add, add_multi_thread, add_tmp_bytes, add_multi_thread_tmp_bytes),
                    "sub" => word!(sub, sub_multi_thread, sub_tmp_bytes, sub_multi_thread_tmp_bytes),
                    "and" => word!(and, and_multi_thread, and_tmp_bytes, and_multi_thread_tmp_bytes),
                    "or" => word!(or, or_multi_thread, or_tmp_bytes, or_multi_thread_tmp_bytes),
                    "xor" => word!(xor, xor_multi_thread, xor_tmp_bytes, xor_multi_thread_tmp_bytes),
                    "sll" => word!(sll, sll_multi_thread, sll_tmp_bytes, sll_multi_thread_tmp_bytes),
                    "srl" => word!(srl, srl_multi_thread, srl_tmp_bytes, srl_multi_thread_tmp_bytes),
                    "sra" => word!(sra, sra_multi_thread, sra_tmp_bytes, sra_multi_thread_tmp_bytes),
                    "slt" => word!(slt, slt_multi_thread, slt_tmp_bytes, slt_multi_thread_tmp_bytes),
                    "sltu" => word!(sltu, sltu_multi_thread, sltu_tmp_bytes, sltu_multi_thread_tmp_bytes),
                    _ => return None,
                };
                let bytes: Vec<u8> = {
                    use poulpy_core::layouts::GLWEToRef;
                    let g = res.to_ref();
                    let d: &[u8] = g.data().data;
                    d.to_vec()
                };
                Some(finish(r, declared, vec![bytes]))
            }
        }
    };
}
pub(crate) use core_ops2_impl;
