//! Sixth part of the C12 op inventory (same conventions as ops.rs / ops3.rs / ops5.rs): the public
//! scratch-taking entry points that share a size query with an operation of another part, or have no
//! size query at all (audit by OPERATION: every public function with a `scratch: &mut Scratch<..>`
//! parameter, instead of every `*_tmp_bytes` query).
//! Each op: build inputs from the Shape (random contents are fine), ask the library for the
//! declared scratch size, run the call through `windowed`, return the output bytes via `finish`.
//!
//! * hal, the normalize family sharing `vec_znx_big_normalize_tmp_bytes`
//!   (`vec_znx_big_normalize_{into,add_assign,sub_assign,negate}`) and the in-place forms sharing the
//!   queries of their out-of-place siblings (`vec_znx_normalize_assign`, `vec_znx_lsh_assign`,
//!   `vec_znx_rsh_assign`). Input and result have their own radix (b_in / b_res: the cross-radix path is
//!   taken whenever they differ), limb count (k_in / k_res), column count (rank_in + 1 / rank_out + 1)
//!   and column index; the offset is zero, within a limb or across limbs, of either sign; the input
//!   limbs are normalised or carry up to 50 bits. The destination sits in a canary-guarded buffer,
//!   pre-filled with random data (the `_add_assign` / `_sub_assign` forms accumulate), and the columns
//!   the call was not asked to write are compared before / after (reported through `canary_ok`).
//! * poulpy-bin-fhe, the word API on `FheUint` / `FheUintPrepared` / `FheUintPreparedDebug`.
//!   Ops with a size query:
//!   `fhe_uint_pack` (`glwe_pack_tmp_bytes`: what the library's callers, the word executors, budget for the
//!   pack step), `fhe_uint_get_bit_lwe` (`lwe_from_glwe_tmp_bytes`, asserted at entry by the delegate when
//!   the bundle has no GLWE switching key), `fhe_uint_prepare`, `fhe_uint_prepared_prepare_custom`,
//!   `fhe_uint_prepared_prepare_custom_multi_thread` (`fhe_uint_prepare_tmp_bytes`, per thread),
//!   `fhe_uint_debug_prepare` (`fhe_uint_prepare_tmp_bytes`: what the crate's own test allocates for it),
//!   `glwe_blind_retriever_add` / `glwe_blind_retriever_flush` (`GLWEBlindRetriever::retrieve_tmp_bytes`,
//!   documented on the struct for all its methods).
//!   Ops WITHOUT any size query - "no query, CLEAN-only": declared is the fixed `NO_QUERY`, so the first two
//!   clauses of the property are not defined for them and the harness checks the third (the result does not
//!   depend on the bytes the scratch held, nothing is written outside the buffer) with its usual windows:
//!   `fhe_uint_from_fhe_uint_prepared`, `fhe_uint_get_bit_glwe`, `fhe_uint_get_byte`,
//!   `fhe_uint_get_bit_lwe_ks_glwe`, `fhe_uint_splice_u8`, `fhe_uint_splice_u16`, `fhe_uint_sext`,
//!   `fhe_uint_zero_byte`, `fhe_uint_noise`, `fhe_uint_prepared_encrypt_sk`, `fhe_uint_prepared_decrypt`,
//!   `fhe_uint_prepared_debug_noise`, `bdd_1w_to_1w_generic`, `bdd_1w_to_1w_generic_multi_thread`,
//!   `word_identity`, `word_identity_multi_thread`.
//! * struct-level wrappers no other part calls: `GGLWE::noise`, `GGSW::noise`,
//!   `CircuitBootstrappingKey::encrypt_sk` (the queries of the module-level calls they delegate to).
macro_rules! core_ops6_impl {
    ($be:ty) => {
        pub mod ops6 {
            #[allow(unused_imports)]
            use super::ops::{finish_pub as finish, src_pub as src, windowed};
            #[allow(unused_imports)]
            use super::*;
            use crate::c12::ops::{Shape, draw};
            use poulpy_bin_fhe::bdd_arithmetic::{FromBits, ToBits, UnsignedInteger};
            #[allow(unused_imports)]
            use poulpy_hal::layouts::{FillUniform, WriterTo};

            pub const OPS6: &[&str] = &[
                "hal_vec_znx_big_normalize_into",
                "hal_vec_znx_big_normalize_add_assign",
                "hal_vec_znx_big_normalize_sub_assign",
                "hal_vec_znx_big_normalize_negate",
                "hal_vec_znx_normalize_assign",
                "hal_vec_znx_lsh_assign",
                "hal_vec_znx_rsh_assign",
                "fhe_uint_pack",
                "fhe_uint_from_fhe_uint_prepared",
                "fhe_uint_get_bit_glwe",
                "fhe_uint_get_byte",
                "fhe_uint_get_bit_lwe",
                "fhe_uint_get_bit_lwe_ks_glwe",
                "fhe_uint_splice_u8",
                "fhe_uint_splice_u16",
                "fhe_uint_sext",
                "fhe_uint_zero_byte",
                "fhe_uint_noise",
                "fhe_uint_prepared_encrypt_sk",
                "fhe_uint_prepared_decrypt",
                "fhe_uint_prepare",
                "fhe_uint_prepared_prepare_custom",
                "fhe_uint_prepared_prepare_custom_multi_thread",
                "fhe_uint_debug_prepare",
                "fhe_uint_prepared_debug_noise",
                "bdd_1w_to_1w_generic",
                "bdd_1w_to_1w_generic_multi_thread",
                "word_identity",
                "word_identity_multi_thread",
                "glwe_blind_retriever_add",
                "glwe_blind_retriever_flush",
                "gglwe_noise_via_struct",
                "ggsw_noise_via_struct",
                "circuit_bootstrapping_key_encrypt_sk_via_struct",
            ];

            /// Declared size of the ops whose entry point has no size query at all ("no query, CLEAN-only" in the
            /// file header): generous for every one of them at the ring degrees of the harness (the largest,
            /// `fhe_uint_from_fhe_uint_prepared` on a 32-bit word at N = 64, carves about 100 KiB).
            const NO_QUERY: usize = 1 << 20;

            fn gl(n: u32, b: u32, k: u32, rank: u32) -> GLWELayout {
                GLWELayout {
                    n: Degree(n),
                    base2k: Base2K(b),
                    k: TorusPrecision(k),
                    rank: Rank(rank),
                }
            }

            fn skp(c: &Ctx, rank: u32, seed: u64) -> (GLWESecret<Vec<u8>>, GLWESecretPrepared<DeviceBuf<BE>, BE>) {
                let mut s: GLWESecret<Vec<u8>> = GLWESecret::alloc(Degree(c.n), Rank(rank));
                s.fill_ternary_prob(0.5, &mut src(seed, 1));
                let mut p: GLWESecretPrepared<DeviceBuf<BE>, BE> = c.module.glwe_secret_prepared_alloc(Rank(rank));
                c.module.glwe_secret_prepare(&mut p, &s);
                (s, p)
            }

            fn ser<T: WriterTo>(x: &T) -> Vec<u8> {
                let mut bytes = Vec::new();
                x.write_to(&mut bytes).unwrap();
                bytes
            }

            fn stats_bytes(st: &poulpy_hal::layouts::Stats) -> Vec<u8> {
                [st.std().to_le_bytes(), st.max().to_le_bytes()].concat()
            }

            /// A word value of the case.
            fn value<T: UnsignedInteger + FromBits>(sh: &Shape, salt: u32) -> T {
                let v = sh.seed.rotate_left(7 * salt) ^ 0x9E37_79B9_7F4A_7C15u64.wrapping_mul(salt as u64);
                let bits: Vec<u8> = (0..T::BITS as usize).map(|i| ((v >> (i % 64)) & 1) as u8).collect();
                T::from_bits(&bits)
            }

            fn value_bytes<T: UnsignedInteger + ToBits>(x: &T) -> Vec<u8> {
                (0..T::BITS as usize).map(|i| x.bit(i)).collect()
            }

            pub fn core_op6(op: &str, sh: &Shape, w: &Window) -> Option<RunResult> {
                if !OPS6.contains(&op) {
                    return None;
                }
                if op.starts_with("hal_") {
                    return core_op6_hal(op, sh, w);
                }
                match op {
                    "fhe_uint_prepare"
                    | "fhe_uint_prepared_prepare_custom"
                    | "fhe_uint_prepared_prepare_custom_multi_thread"
                    | "fhe_uint_debug_prepare"
                    | "fhe_uint_prepared_debug_noise" => {
                        // mostly 8-bit words (one circuit bootstrapping per bit and window)
                        let bits = [32u32, 16, 16, 8, 8, 8, 8, 8][(sh.seed >> 50) as usize % 8];
                        let c = ctx(sh.n.max(bits), 1);
                        let b = bdd_ctx(c);
                        return match bits {
                            32 => core_op6_prepare::<u32>(op, sh, w, c, b, &b.word32),
                            16 => core_op6_prepare::<u16>(op, sh, w, c, b, &b.word16),
                            _ => core_op6_prepare::<u8>(op, sh, w, c, b, &b.word8),
                        };
                    }
                    "bdd_1w_to_1w_generic" | "bdd_1w_to_1w_generic_multi_thread" | "word_identity" | "word_identity_multi_thread" => {
                        return core_op6_1w(op, sh, w);
                    }
                    "glwe_blind_retriever_add"
                    | "glwe_blind_retriever_flush"
                    | "gglwe_noise_via_struct"
                    | "ggsw_noise_via_struct"
                    | "circuit_bootstrapping_key_encrypt_sk_via_struct" => return core_op6_misc(op, sh, w),
                    _ => {}
                }
                // the word helpers: the word type comes from the seed (16-bit halves need at least 16 bits)
                let bits = if op == "fhe_uint_splice_u16" {
                    [16u32, 32][(sh.seed >> 50) as usize % 2]
                } else if op == "fhe_uint_prepared_encrypt_sk" || op == "fhe_uint_prepared_decrypt" || op == "fhe_uint_from_fhe_uint_prepared" {
                    // one GGSW encryption + preparation per bit in the set-up
                    [32u32, 16, 8, 8][(sh.seed >> 50) as usize % 4]
                } else {
                    [8u32, 16, 32][(sh.seed >> 50) as usize % 3]
                };
                match bits {
                    32 => core_op6_word::<u32>(op, sh, w),
                    16 => core_op6_word::<u16>(op, sh, w),
                    _ => core_op6_word::<u8>(op, sh, w),
                }
            }

            /// poulpy-bin-fhe: helpers on the packed word (`FheUint`), and the two `FheUintPrepared` entry points
            /// that need no key bundle word (`encrypt_sk`, `decrypt`).
            fn core_op6_word<T: UnsignedInteger + ToBits + FromBits>(op: &str, sh: &Shape, w: &Window) -> Option<RunResult> {
                use poulpy_bin_fhe::bdd_arithmetic::{BDDKeyHelper, FheUintPreparedEncryptSk};
                use poulpy_core::layouts::{GLWEAutomorphismKeyHelper, LWE, LWELayout};
                use poulpy_core::{GLWEPacking, LWEFromGLWE};
                // N is a multiple of the word size
                let n = sh.n.max(T::BITS);
                // a rank 2 bundle carries the GLWE switching key of the bit extraction
                let rank = if op == "fhe_uint_get_bit_lwe_ks_glwe" { 2 } else { 1 };
                let c = ctx(n, rank);
                let b = bdd_ctx(c);
                let m = &c.module;
                let mut big: ScratchOwned<BE> = ScratchOwned::alloc(1 << 22);
                let bits = T::BITS as usize;
                let bytes = bits / 8;
                // same radix as the words of the key bundle (13); precision from one to three limbs, the second
                // operand may have another precision
                let k0 = 13 * (1 + sh.extra % 3) - (sh.seed % 5) as u32;
                let k1 = if sh.flags & 1 == 1 { 13 * (1 + (sh.extra >> 1) % 3) - ((sh.seed >> 3) % 5) as u32 } else { k0 };
                let infos0 = gl(n, 13, k0, rank);
                let infos1 = gl(n, 13, k1, rank);
                let mk = |infos: &GLWELayout, i: u64| -> GLWE<Vec<u8>> {
                    let mut ct: GLWE<Vec<u8>> = GLWE::alloc_from_infos(infos);
                    ct.fill_uniform(13, &mut src(sh.seed ^ (i << 32), 6));
                    ct
                };
                // bit / byte index: first, last, middle, anywhere
                let bit = draw::index(sh.seed >> 8, bits);
                let byte = draw::index(sh.seed >> 8, bytes);
                let prepared_word = |big: &mut ScratchOwned<BE>| -> FheUintPrepared<DeviceBuf<BE>, T, BE> {
                    let enc = EncryptionLayout::new_from_default_sigma(c.ggsw_infos).unwrap();
                    let mut a: FheUintPrepared<DeviceBuf<BE>, T, BE> = FheUintPrepared::alloc_from_infos(m, &c.ggsw_infos);
                    a.encrypt_sk(m, value::<T>(sh, 1), &c.sk_prep, &enc, &mut src(sh.seed, 3), &mut src(sh.seed, 4), big.borrow());
                    a
                };
                let r = match op {
                    "fhe_uint_pack" => {
                        // all the bits, or only the first few (the others stay empty slots of the packing)
                        let count = if sh.flags & 1 == 0 { bits } else { 1 + (sh.seed >> 20) as usize % bits };
                        let mut cts: Option<Vec<GLWE<Vec<u8>>>> = Some((0..count).map(|i| mk(&infos0, i as u64)).collect());
                        let mut g = mk(&infos0, 99);
                        let declared = m.glwe_pack_tmp_bytes(&infos0, &b.key.automorphism_key_infos());
                        let r = {
                            let mut res: FheUint<&mut [u8], T> = FheUint::from_glwe_to_mut(&mut g);
                            windowed(declared, w, &mut |s| res.pack(m, cts.take().unwrap(), &b.key, s))
                        };
                        finish(r, declared, vec![g.data().data.clone()])
                    }
                    "fhe_uint_from_fhe_uint_prepared" => {
                        let a = prepared_word(&mut big);
                        let mut g = mk(&infos0, 99);
                        let declared = NO_QUERY;
                        let r = {
                            let mut res: FheUint<&mut [u8], T> = FheUint::from_glwe_to_mut(&mut g);
                            windowed(declared, w, &mut |s| res.from_fhe_uint_prepared(m, &a, &b.key, s))
                        };
                        finish(r, declared, vec![g.data().data.clone()])
                    }
                    "fhe_uint_get_bit_glwe" | "fhe_uint_get_byte" => {
                        let a = mk(&infos0, 1);
                        let word: FheUint<&[u8], T> = FheUint::from_glwe_to_ref(&a);
                        let mut res = mk(&infos1, 99);
                        let declared = NO_QUERY;
                        let r = if op == "fhe_uint_get_bit_glwe" {
                            windowed(declared, w, &mut |s| word.get_bit_glwe(m, bit, &mut res, &b.key, s))
                        } else {
                            windowed(declared, w, &mut |s| word.get_byte(m, byte, &mut res, &b.key, s))
                        };
                        finish(r, declared, vec![res.data().data.clone()])
                    }
                    "fhe_uint_get_bit_lwe" | "fhe_uint_get_bit_lwe_ks_glwe" => {
                        let a = mk(&infos0, 1);
                        let word: FheUint<&[u8], T> = FheUint::from_glwe_to_ref(&a);
                        let (_cbt, ks_glwe, ks_lwe) = b.key.get_cbt_key();
                        assert_eq!(ks_glwe.is_some(), rank == 2);
                        let n_lwe = if sh.flags & 1 == 1 { n - 1 } else { sh.n_lwe.min(n - 1) };
                        let lwe_infos = LWELayout {
                            n: Degree(n_lwe),
                            k: TorusPrecision(sh.k_res),
                            base2k: Base2K(sh.b_res),
                        };
                        let mut lwe: LWE<Vec<u8>> = LWE::alloc_from_infos(&lwe_infos);
                        // without a GLWE switching key the call is `lwe_from_glwe` on the whole window, which asserts its
                        // own query at entry; with one, a temporary and two steps share the window and nothing sizes them
                        let declared = if rank == 1 { m.lwe_from_glwe_tmp_bytes(&lwe_infos, &infos0, ks_lwe) } else { NO_QUERY };
                        let r = windowed(declared, w, &mut |s| word.get_bit_lwe(m, bit, &mut lwe, ks_glwe, ks_lwe, s));
                        finish(r, declared, vec![ser(&lwe)])
                    }
                    "fhe_uint_splice_u8" | "fhe_uint_splice_u16" => {
                        let a = mk(&infos0, 1);
                        let bb = mk(&infos1, 2);
                        let mut g = mk(&infos0, 99);
                        let slots = if op == "fhe_uint_splice_u8" { bytes } else { bits / 16 };
                        // destination and source slot: first, last, middle, anywhere; equal or not
                        let dst = draw::index(sh.seed >> 8, slots);
                        let from = draw::index(sh.seed >> 12, slots);
                        let declared = NO_QUERY;
                        let r = {
                            let mut res: FheUint<&mut [u8], T> = FheUint::from_glwe_to_mut(&mut g);
                            if op == "fhe_uint_splice_u8" {
                                windowed(declared, w, &mut |s| res.splice_u8(m, dst, from, &a, &bb, &b.key, s))
                            } else {
                                windowed(declared, w, &mut |s| res.splice_u16(m, dst, from, &a, &bb, &b.key, s))
                            }
                        };
                        finish(r, declared, vec![g.data().data.clone()])
                    }
                    "fhe_uint_sext" | "fhe_uint_zero_byte" => {
                        let mut g = mk(&infos0, 1);
                        let declared = NO_QUERY;
                        let r = {
                            let mut res: FheUint<&mut [u8], T> = FheUint::from_glwe_to_mut(&mut g);
                            if op == "fhe_uint_sext" {
                                windowed(declared, w, &mut |s| res.sext(m, byte, &b.key, s))
                            } else {
                                windowed(declared, w, &mut |s| res.zero_byte(m, byte, &b.key, s))
                            }
                        };
                        finish(r, declared, vec![g.data().data.clone()])
                    }
                    "fhe_uint_noise" => {
                        let a = mk(&infos0, 1);
                        let word: FheUint<&[u8], T> = FheUint::from_glwe_to_ref(&a);
                        let want = sh.seed as u32;
                        let declared = NO_QUERY;
                        let mut out = Vec::new();
                        let r = windowed(declared, w, &mut |s| out = stats_bytes(&word.noise(m, want, &c.sk_prep, s)));
                        finish(r, declared, vec![out])
                    }
                    "fhe_uint_prepared_encrypt_sk" => {
                        // GGSW layout from the shape, as ggsw_encrypt_sk of ops.rs; module-level call or struct-level wrapper
                        let rank = sh.rank_out.min(2);
                        let ggsw_infos = GGSWLayout {
                            n: Degree(n),
                            base2k: Base2K(sh.b_key),
                            k: TorusPrecision(sh.k_key),
                            rank: Rank(rank),
                            dnum: Dnum(sh.dnum()),
                            dsize: Dsize(sh.dsize),
                        };
                        let enc = EncryptionLayout::new_from_default_sigma(ggsw_infos).unwrap();
                        let (_s, sp) = skp(c, rank, sh.seed);
                        let mut res: FheUintPrepared<DeviceBuf<BE>, T, BE> = FheUintPrepared::alloc_from_infos(m, &ggsw_infos);
                        let v = value::<T>(sh, 1);
                        let declared = NO_QUERY;
                        let r = if sh.flags & 1 == 1 {
                            windowed(declared, w, &mut |s| res.encrypt_sk(m, v, &sp, &enc, &mut src(sh.seed, 3), &mut src(sh.seed, 4), s))
                        } else {
                            windowed(declared, w, &mut |s| {
                                m.fhe_uint_prepared_encrypt_sk(&mut res, v, &sp, &enc, &mut src(sh.seed, 3), &mut src(sh.seed, 4), s)
                            })
                        };
                        let outs: Vec<Vec<u8>> = (0..bits)
                            .map(|i| {
                                let g = res.get_bit(i);
                                let d: &[u8] = g.data().data();
                                d.to_vec()
                            })
                            .collect();
                        finish(r, declared, outs)
                    }
                    "fhe_uint_prepared_decrypt" => {
                        let a = prepared_word(&mut big);
                        let declared = NO_QUERY;
                        let mut out = Vec::new();
                        let r = windowed(declared, w, &mut |s| out = value_bytes(&a.decrypt(m, &c.sk_prep, &b.key, s)));
                        finish(r, declared, vec![out])
                    }
                    _ => return None,
                };
                Some(r)
            }

            /// poulpy-bin-fhe: a packed word of the key bundle context is bootstrapped into its per-bit form
            /// (`FheUintPrepared`, `FheUintPreparedDebug`).
            fn core_op6_prepare<T: UnsignedInteger + ToBits + FromBits>(
                op: &str,
                sh: &Shape,
                w: &Window,
                c: &'static Ctx,
                b: &'static BddCtx,
                word: &FheUint<Vec<u8>, T>,
            ) -> Option<RunResult> {
                use poulpy_bin_fhe::bdd_arithmetic::{FheUintPrepareDebug, FheUintPreparedDebug};
                use poulpy_core::layouts::GGSWInfos;
                let m = &c.module;
                let mut big: ScratchOwned<BE> = ScratchOwned::alloc(1 << 22);
                let bits = T::BITS as usize;
                // result layouts the shared key bundle serves (as the SHARED workloads of fhe.rs)
                let mut gi = c.ggsw_infos;
                match sh.extra % 3 {
                    1 => gi.dnum = Dnum(1),
                    2 => {
                        gi.base2k = Base2K(12);
                        gi.k = TorusPrecision(36);
                    }
                    _ => {}
                }
                let via_struct = sh.flags & 1 == 1;
                let all_bits = |res: &FheUintPrepared<DeviceBuf<BE>, T, BE>| -> Vec<Vec<u8>> {
                    (0..bits)
                        .map(|i| {
                            let g = res.get_bit(i);
                            let d: &[u8] = g.data().data();
                            d.to_vec()
                        })
                        .collect()
                };
                if op == "fhe_uint_debug_prepare" || op == "fhe_uint_prepared_debug_noise" {
                    let mut res: FheUintPreparedDebug<Vec<u8>, T> = FheUintPreparedDebug::alloc_from_infos(m, &gi);
                    let want = value::<T>(sh, 2);
                    let rows = res.dnum().0 as usize;
                    if op == "fhe_uint_debug_prepare" {
                        // the query gets the very objects the call gets, as in the crate's own test of this entry point
                        let declared = m.fhe_uint_prepare_tmp_bytes(b.block_size, 1, &res, word, &b.key);
                        let r = windowed(declared, w, &mut |s| {
                            if via_struct {
                                res.prepare(m, word, &b.key, s)
                            } else {
                                <Module<BE> as FheUintPrepareDebug<CGGI, T, BE>>::fhe_uint_debug_prepare(m, &mut res, word, &b.key, s)
                            }
                        });
                        // the bits are private: observe them through the noise of every row / column against a fixed word
                        let mut outs = Vec::new();
                        if r.0.is_ok() {
                            for row in 0..rows {
                                for col in 0..2 {
                                    let st = res.noise(m, row, col, want, &c.sk_prep, big.borrow());
                                    outs.push(st.iter().flat_map(stats_bytes).collect::<Vec<u8>>());
                                }
                            }
                        }
                        return Some(finish(r, declared, outs));
                    }
                    res.prepare(m, word, &b.key, big.borrow());
                    let row = draw::index(sh.seed >> 8, rows);
                    let col = (sh.seed >> 12) as usize % 2;
                    let declared = NO_QUERY;
                    let mut out = Vec::new();
                    let r = windowed(declared, w, &mut |s| {
                        out = res.noise(m, row, col, want, &c.sk_prep, s).iter().flat_map(stats_bytes).collect::<Vec<u8>>()
                    });
                    return Some(finish(r, declared, vec![out]));
                }
                let mut res: FheUintPrepared<DeviceBuf<BE>, T, BE> = FheUintPrepared::alloc_from_infos(m, &gi);
                // the query gets the very objects the call gets (the entry assert does the same)
                let per_thread = m.fhe_uint_prepare_tmp_bytes(b.block_size, 1, &res, word, &b.key);
                // bit window [bit_start, bit_start + bit_count) of the word (`bit_start + bit_count <= T::BITS`): from bit 0,
                // ending exactly at the word size, straddling a byte boundary, anywhere
                let window = |max_count: usize| -> (usize, usize) {
                    let count = 1 + (sh.seed >> 16) as usize % max_count.min(bits);
                    let start = match (sh.seed >> 8) % 4 {
                        0 => 0,
                        1 => bits - count,
                        2 if bits > 8 && count > 1 => 8 * (1 + (sh.seed >> 10) as usize % (bits / 8 - 1)) - 1 - (sh.seed >> 13) as usize % (count - 1),
                        _ => (sh.seed >> 10) as usize % (bits - count + 1),
                    };
                    (start, count)
                };
                let r = match op {
                    "fhe_uint_prepare" => {
                        let declared = per_thread;
                        let r = windowed(declared, w, &mut |s| {
                            if via_struct {
                                res.prepare(m, word, &b.key, s)
                            } else {
                                m.fhe_uint_prepare(&mut res, word, &b.key, s)
                            }
                        });
                        finish(r, declared, all_bits(&res))
                    }
                    "fhe_uint_prepared_prepare_custom" => {
                        // (the wrapper's fifth parameter is named `bit_end` and is handed on as the bit count)
                        let (bit_start, bit_count) = window(4);
                        let declared = per_thread;
                        let r = windowed(declared, w, &mut |s| res.prepare_custom(m, word, bit_start, bit_count, &b.key, s));
                        finish(r, declared, all_bits(&res))
                    }
                    "fhe_uint_prepared_prepare_custom_multi_thread" => {
                        let (bit_start, bit_count) = window(6);
                        // 1, 2, a count that does not divide the bits, more threads than bits, more than 32
                        let threads = draw::threads(sh.seed >> 20, bit_count);
                        let declared = threads * per_thread;
                        let r = windowed(declared, w, &mut |s| {
                            res.prepare_custom_multi_thread(threads, m, word, bit_start, bit_count, &b.key, s)
                        });
                        finish(r, declared, all_bits(&res))
                    }
                    _ => return None,
                };
                Some(r)
            }

            /// poulpy-bin-fhe: the one-word executor (harness circuits on the shared 8-bit word; the identity on a
            /// 32-bit word).
            fn core_op6_1w(op: &str, sh: &Shape, w: &Window) -> Option<RunResult> {
                use poulpy_bin_fhe::bdd_arithmetic::{ExecuteBDDCircuit1WTo1W, Identity};
                use poulpy_core::layouts::GLWEToRef;
                let multi = op.ends_with("_multi_thread");
                if op.starts_with("word_identity") {
                    let threads = draw::threads(sh.seed >> 20, 32);
                    // no query: a fixed generous window per thread (the entry point asserts threads x its per-thread need)
                    let declared = if multi { NO_QUERY * threads.max(1) } else { NO_QUERY };
                    // encrypted 32-bit words need N >= 32
                    let n = if sh.n >= 64 { 64 } else { 32 };
                    let c = ctx(n, 1);
                    let b = bdd_ctx(c);
                    let m = &c.module;
                    let mut big: ScratchOwned<BE> = ScratchOwned::alloc(1 << 22);
                    let enc = EncryptionLayout::new_from_default_sigma(c.ggsw_infos).unwrap();
                    let mut a: FheUintPrepared<DeviceBuf<BE>, u32, BE> = FheUintPrepared::alloc_from_infos(m, &c.ggsw_infos);
                    a.encrypt_sk(m, sh.seed as u32, &c.sk_prep, &enc, &mut src(sh.seed, 3), &mut src(sh.seed, 4), big.borrow());
                    let mut res: FheUint<Vec<u8>, u32> = FheUint::alloc_from_infos(&c.glwe_infos);
                    let r = if multi {
                        windowed(declared, w, &mut |s| res.identity_multi_thread(threads, m, &a, &b.key, s))
                    } else {
                        windowed(declared, w, &mut |s| res.identity(m, &a, &b.key, s))
                    };
                    let bytes: Vec<u8> = {
                        let g = res.to_ref();
                        let d: &[u8] = g.data().data;
                        d.to_vec()
                    };
                    return Some(finish(r, declared, vec![bytes]));
                }
                let c = ctx(sh.n, 1);
                let b = bdd_ctx(c);
                let m = &c.module;
                // same radix as the selector bits (13); precision from one to three limbs
                let k = 13 * (1 + sh.extra % 3) - (sh.seed % 5) as u32;
                let res_infos = gl(sh.n, 13, k, 1);
                let outputs = 1 + (sh.seed >> 8) as usize % 8;
                let threads = draw::threads(sh.seed >> 20, outputs);
                let declared = if multi { NO_QUERY * threads.max(1) } else { NO_QUERY };
                let circuit = SimCircuit::generate(sh.seed, outputs, 8);
                let mut out: FheUint<Vec<u8>, u8> = FheUint::alloc_from_infos(&res_infos);
                let r = if multi {
                    windowed(declared, w, &mut |s| m.execute_bdd_circuit_1w_to_1w_multi_thread(threads, &mut out, &circuit, &c.inputs, &b.key, s))
                } else {
                    windowed(declared, w, &mut |s| m.execute_bdd_circuit_1w_to_1w(&mut out, &circuit, &c.inputs, &b.key, s))
                };
                let bytes: Vec<u8> = {
                    let g = out.to_ref();
                    let d: &[u8] = g.data().data;
                    d.to_vec()
                };
                Some(finish(r, declared, vec![bytes]))
            }

            /// The retriever's two phases on their own, and struct-level wrappers no other part calls.
            fn core_op6_misc(op: &str, sh: &Shape, w: &Window) -> Option<RunResult> {
                use poulpy_bin_fhe::bdd_arithmetic::GLWEBlindRetriever;
                use poulpy_bin_fhe::circuit_bootstrapping::{
                    CircuitBootstrappingEncryptionInfos, CircuitBootstrappingKey, CircuitBootstrappingKeyEncryptSk,
                };
                use poulpy_core::layouts::{GGLWE, GGLWELayout, GGSW};
                use poulpy_core::{GGLWENoise, GGSWNoise};
                let c = ctx(sh.n, 1);
                let m = &c.module;
                let mut big: ScratchOwned<BE> = ScratchOwned::alloc(1 << 22);
                let rank = sh.rank_out;
                let r = match op {
                    "glwe_blind_retriever_add" | "glwe_blind_retriever_flush" => {
                        // same radix as the selector bits (13); precision from one to three limbs
                        let k = 13 * (1 + sh.extra % 3) - (sh.seed % 5) as u32;
                        let infos = gl(sh.n, 13, k, 1);
                        // 1..=17 entries (up to five accumulator levels); the selector bits used are offset..offset+levels
                        // of the 8-bit word
                        let count = 1 + (sh.seed as usize >> 32) % 17;
                        let levels = (u32::BITS - (count.max(2) as u32 - 1).leading_zeros()) as usize;
                        let bit_rsh = draw::index(sh.seed >> 20, 8 - levels + 1);
                        let cts: Vec<GLWE<Vec<u8>>> = (0..count as u64)
                            .map(|i| {
                                let mut ct: GLWE<Vec<u8>> = GLWE::alloc_from_infos(&infos);
                                ct.fill_uniform(13, &mut src(sh.seed ^ (i << 32), 6));
                                ct
                            })
                            .collect();
                        let mut retriever = GLWEBlindRetriever::alloc(&infos, count.max(2));
                        let mut res: GLWE<Vec<u8>> = GLWE::alloc_from_infos(&infos);
                        res.fill_uniform(13, &mut src(sh.seed, 7));
                        let declared = GLWEBlindRetriever::retrieve_tmp_bytes(m, &infos, &c.ggsw_infos);
                        let r = if op == "glwe_blind_retriever_add" {
                            let r = windowed(declared, w, &mut |s| {
                                for ct in cts.iter() {
                                    retriever.add(m, ct, &c.inputs, bit_rsh, s);
                                }
                            });
                            if r.0.is_ok() {
                                retriever.flush(m, &mut res, &c.inputs, bit_rsh, big.borrow());
                            }
                            r
                        } else {
                            for ct in cts.iter() {
                                retriever.add(m, ct, &c.inputs, bit_rsh, big.borrow());
                            }
                            windowed(declared, w, &mut |s| retriever.flush(m, &mut res, &c.inputs, bit_rsh, s))
                        };
                        finish(r, declared, vec![res.data().data.clone()])
                    }
                    "gglwe_noise_via_struct" | "ggsw_noise_via_struct" => {
                        let (_s, sp) = skp(c, rank, sh.seed);
                        let mut pt: poulpy_hal::layouts::ScalarZnx<Vec<u8>> =
                            poulpy_hal::layouts::ScalarZnx::alloc(sh.n as usize, sh.rank_in as usize);
                        pt.fill_uniform(3, &mut src(sh.seed, 2));
                        let mut out = Vec::new();
                        let row = draw::index(sh.seed >> 12, sh.dnum() as usize);
                        if op == "gglwe_noise_via_struct" {
                            let infos = GGLWELayout {
                                n: Degree(sh.n),
                                base2k: Base2K(sh.b_key),
                                k: TorusPrecision(sh.k_key),
                                rank_in: Rank(sh.rank_in),
                                rank_out: Rank(rank),
                                dnum: Dnum(sh.dnum()),
                                dsize: Dsize(sh.dsize),
                            };
                            let mut ct: GGLWE<Vec<u8>> = GGLWE::alloc_from_infos(&infos);
                            ct.fill_uniform(sh.b_key as usize, &mut src(sh.seed, 6));
                            let col = draw::index(sh.seed >> 16, sh.rank_in as usize);
                            let declared = m.gglwe_noise_tmp_bytes(&infos);
                            let r = windowed(declared, w, &mut |s| out = stats_bytes(&ct.noise(m, row, col, &pt, &sp, s)));
                            finish(r, declared, vec![out])
                        } else {
                            let infos = GGSWLayout {
                                n: Degree(sh.n),
                                base2k: Base2K(sh.b_key),
                                k: TorusPrecision(sh.k_key),
                                rank: Rank(rank),
                                dnum: Dnum(sh.dnum()),
                                dsize: Dsize(sh.dsize),
                            };
                            let mut ct: GGSW<Vec<u8>> = GGSW::alloc_from_infos(&infos);
                            ct.fill_uniform(sh.b_key as usize, &mut src(sh.seed, 6));
                            let col = draw::index(sh.seed >> 16, rank as usize + 1);
                            let declared = m.ggsw_noise_tmp_bytes(&infos);
                            let r = windowed(declared, w, &mut |s| out = stats_bytes(&ct.noise(m, row, col, &pt, &sp, s)));
                            finish(r, declared, vec![out])
                        }
                    }
                    "circuit_bootstrapping_key_encrypt_sk_via_struct" => {
                        // layouts as circuit_bootstrapping_key_encrypt_sk of ops.rs
                        let rank = sh.rank_out.min(2);
                        let size_res = sh.k_res.div_ceil(sh.b_res).max(2);
                        let k_res = sh.b_res * (size_res - 1) + 1 + (sh.k_res % sh.b_res).min(sh.b_res - 1);
                        let k_big = sh.k_key.max(k_res);
                        let rows = |b: u32, k: u32| -> u32 { (k.div_ceil(b)).saturating_sub(1).max(1) };
                        // block size 1..4 of the block-binary LWE secret; the LWE dimension is a multiple of it
                        let block = 1 + (sh.seed >> 36) as u32 % 4;
                        let n_lwe = sh.n_lwe.max(2).next_multiple_of(block);
                        let b_tsk = sh.b_key.saturating_sub(1).max(6);
                        let cbt_infos = CircuitBootstrappingKeyLayout {
                            brk_layout: BlindRotationKeyLayout {
                                n_glwe: Degree(sh.n),
                                n_lwe: Degree(n_lwe),
                                base2k: Base2K(sh.b_in),
                                k: TorusPrecision(k_big),
                                dnum: Dnum(rows(sh.b_in, k_big)),
                                rank: Rank(rank),
                            },
                            atk_layout: GLWEAutomorphismKeyLayout {
                                n: Degree(sh.n),
                                base2k: Base2K(sh.b_key),
                                k: TorusPrecision(k_big),
                                rank: Rank(rank),
                                dnum: Dnum(rows(sh.b_key, k_big)),
                                dsize: Dsize(1),
                            },
                            tsk_layout: GGLWEToGGSWKeyLayout {
                                n: Degree(sh.n),
                                base2k: Base2K(b_tsk),
                                k: TorusPrecision(k_big),
                                rank: Rank(rank),
                                dnum: Dnum(rows(b_tsk, k_big)),
                                dsize: Dsize(1),
                            },
                        };
                        let mut sk_lwe: LWESecret<Vec<u8>> = LWESecret::alloc(Degree(n_lwe));
                        sk_lwe.fill_binary_block(block as usize, &mut src(sh.seed, 9));
                        let (sk_glwe, _) = skp(c, rank, sh.seed);
                        let mut key: CircuitBootstrappingKey<Vec<u8>, CGGI> = CircuitBootstrappingKey::alloc_from_infos(&cbt_infos);
                        let enc = CircuitBootstrappingEncryptionInfos::from_default_sigma(&cbt_infos).unwrap();
                        let declared = m.circuit_bootstrapping_key_encrypt_sk_tmp_bytes(&cbt_infos);
                        let r = windowed(declared, w, &mut |s| {
                            key.encrypt_sk(m, &sk_lwe, &sk_glwe, &enc, &mut src(sh.seed, 3), &mut src(sh.seed, 4), s)
                        });
                        finish(r, declared, vec![ser(&key)])
                    }
                    _ => return None,
                };
                Some(r)
            }

            /// Canary margin around the operands of the hal ops: a write past the end of an operand lands in
            /// harness-owned bytes and is reported (through the `canary_ok` flag, i.e. as FIT:wrote_outside_window)
            /// instead of corrupting the heap of the worker process.
            const GUARD: usize = 4096;
            const GUARD_BYTE: u8 = 0xC5;

            fn guarded(len: usize) -> Vec<u8> {
                let mut buf: Vec<u8> = poulpy_hal::alloc_aligned::<u8>(len + 2 * GUARD);
                buf.fill(GUARD_BYTE);
                buf
            }

            fn guards_intact(buf: &[u8]) -> bool {
                buf[..GUARD].iter().all(|b| *b == GUARD_BYTE) && buf[buf.len() - GUARD..].iter().all(|b| *b == GUARD_BYTE)
            }

            /// Every column but `col` holds the same bytes in both images of a (n, cols, size) vector.
            fn other_cols_same(before: &[u8], after: &[u8], n: usize, cols: usize, size: usize, col: usize) -> bool {
                use poulpy_hal::layouts::{VecZnx, ZnxView};
                let x: VecZnx<&[u8]> = VecZnx::from_data(before, n, cols, size);
                let y: VecZnx<&[u8]> = VecZnx::from_data(after, n, cols, size);
                (0..cols).filter(|c| *c != col).all(|c| (0..size).all(|j| x.at(c, j) == y.at(c, j)))
            }

            /// poulpy_hal::api level: the normalize family on its shared query, in-place normalisation and shifts.
            fn core_op6_hal(op: &str, sh: &Shape, w: &Window) -> Option<RunResult> {
                use poulpy_hal::api::*;
                use poulpy_hal::layouts::VecZnx;
                let c = ctx(sh.n, 1);
                let m = &c.module;
                let n = sh.n as usize;
                let (b_in, b_res) = (sh.b_in as usize, sh.b_res as usize);
                let size_in = sh.k_in.div_ceil(sh.b_in) as usize;
                let size_res = sh.k_res.div_ceil(sh.b_res) as usize;
                // input and result: own column count and column index
                let a_cols = sh.rank_in as usize + 1;
                let res_cols = sh.rank_out as usize + 1;
                let a_col = (sh.seed >> 4) as usize % a_cols;
                let res_col = (sh.seed >> 7) as usize % res_cols;
                // input limbs: normalised, or carrying what sums / products leave on them
                let a_bits = [b_in, b_in + 7, 2 * b_in + 9, 50][(sh.seed >> 40) as usize % 4];
                // offset: none, within a limb, whole limbs, across several limbs, the whole precision of either side and
                // beyond; either sign
                let off: i64 = draw::offset(sh.seed >> 16, b_in, if sh.seed & 4 == 0 { size_in } else { size_res });
                let r = if op.starts_with("hal_vec_znx_big_normalize_") {
                    let mut a: VecZnx<Vec<u8>> = VecZnx::alloc(n, a_cols, size_in);
                    a.fill_uniform(a_bits, &mut src(sh.seed, 6));
                    let mut ab = m.vec_znx_big_alloc(a_cols, size_in);
                    for i in 0..a_cols {
                        m.vec_znx_big_from_small(&mut ab, i, &a, i);
                    }
                    // the destination holds random limbs beforehand (the add / sub forms accumulate on them)
                    let res_len = VecZnx::<Vec<u8>>::bytes_of(n, res_cols, size_res);
                    let mut res_buf = guarded(res_len);
                    {
                        let mut res: VecZnx<&mut [u8]> = VecZnx::from_data(&mut res_buf[GUARD..GUARD + res_len], n, res_cols, size_res);
                        res.fill_uniform(b_res, &mut src(sh.seed, 7));
                    }
                    let before = res_buf[GUARD..GUARD + res_len].to_vec();
                    let declared = m.vec_znx_big_normalize_tmp_bytes();
                    let mut r = {
                        let mut res: VecZnx<&mut [u8]> = VecZnx::from_data(&mut res_buf[GUARD..GUARD + res_len], n, res_cols, size_res);
                        match op {
                            "hal_vec_znx_big_normalize_into" => {
                                windowed(declared, w, &mut |s| m.vec_znx_big_normalize_into(&mut res, b_res, off, res_col, &ab, b_in, a_col, s))
                            }
                            "hal_vec_znx_big_normalize_add_assign" => windowed(declared, w, &mut |s| {
                                m.vec_znx_big_normalize_add_assign(&mut res, b_res, off, res_col, &ab, b_in, a_col, s)
                            }),
                            "hal_vec_znx_big_normalize_sub_assign" => windowed(declared, w, &mut |s| {
                                m.vec_znx_big_normalize_sub_assign(&mut res, b_res, off, res_col, &ab, b_in, a_col, s)
                            }),
                            "hal_vec_znx_big_normalize_negate" => {
                                windowed(declared, w, &mut |s| m.vec_znx_big_normalize_negate(&mut res, b_res, off, res_col, &ab, b_in, a_col, s))
                            }
                            _ => return None,
                        }
                    };
                    let after = res_buf[GUARD..GUARD + res_len].to_vec();
                    r.2 &= guards_intact(&res_buf) && other_cols_same(&before, &after, n, res_cols, size_res, res_col);
                    finish(r, declared, vec![after])
                } else {
                    // in place on one column of a guarded vector
                    let a_len = VecZnx::<Vec<u8>>::bytes_of(n, a_cols, size_in);
                    let mut a_buf = guarded(a_len);
                    {
                        let mut a: VecZnx<&mut [u8]> = VecZnx::from_data(&mut a_buf[GUARD..GUARD + a_len], n, a_cols, size_in);
                        a.fill_uniform(if op == "hal_vec_znx_normalize_assign" { a_bits } else { b_in }, &mut src(sh.seed, 6));
                    }
                    let before = a_buf[GUARD..GUARD + a_len].to_vec();
                    let declared = match op {
                        "hal_vec_znx_normalize_assign" => m.vec_znx_normalize_tmp_bytes(),
                        "hal_vec_znx_lsh_assign" => m.vec_znx_lsh_tmp_bytes(),
                        "hal_vec_znx_rsh_assign" => m.vec_znx_rsh_tmp_bytes(),
                        _ => return None,
                    };
                    // shift amounts: zero, below one limb, whole limbs, several limbs, the whole precision; a left shift
                    // may also exceed it (everything is pushed out); the in-place right shift indexes limb
                    // `size - steps - 1` and so accepts at most the precision of the vector (bound included)
                    let k_lsh = draw::bits(sh.seed >> 8, b_in, size_in);
                    let k_rsh = draw::bits(sh.seed >> 8, b_in, size_in).min(size_in * b_in);
                    let mut r = {
                        let mut a: VecZnx<&mut [u8]> = VecZnx::from_data(&mut a_buf[GUARD..GUARD + a_len], n, a_cols, size_in);
                        match op {
                            "hal_vec_znx_normalize_assign" => windowed(declared, w, &mut |s| m.vec_znx_normalize_assign(b_in, &mut a, a_col, s)),
                            "hal_vec_znx_lsh_assign" => windowed(declared, w, &mut |s| m.vec_znx_lsh_assign(b_in, k_lsh, &mut a, a_col, s)),
                            _ => windowed(declared, w, &mut |s| m.vec_znx_rsh_assign(b_in, k_rsh, &mut a, a_col, s)),
                        }
                    };
                    let after = a_buf[GUARD..GUARD + a_len].to_vec();
                    r.2 &= guards_intact(&a_buf) && other_cols_same(&before, &after, n, a_cols, size_in, a_col);
                    finish(r, declared, vec![after])
                };
                Some(r)
            }
        }
    };
}
pub(crate) use core_ops6_impl;
