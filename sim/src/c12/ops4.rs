//! Fourth part of the C12 op inventory: the CKKS crate (poulpy-ckks), same conventions as ops.rs.
//! Each op: build inputs from the Shape, ask the library for the declared scratch size, run the call
//! through `windowed`, return the output bytes via `finish`.
macro_rules! core_ops4_impl {
    ($be:ty) => {
        pub mod ops4 {
            #[allow(unused_imports)]
            use super::ops::{finish_pub as finish, src_pub as src, windowed};
            #[allow(unused_imports)]
            use super::*;
            use crate::c12::ops::Shape;

            pub const OPS4: &[&str] = &[];

            #[allow(unused_variables)]
            pub fn core_op4(op: &str, sh: &Shape, w: &Window) -> Option<RunResult> {
                None
            }
        }
    };
}
pub(crate) use core_ops4_impl;
