//! Fourth part of the C12 op inventory: the CKKS crate (poulpy-ckks), same conventions as ops.rs.
//! Each op: build inputs from the Shape, ask the library for the declared scratch size, run the call
//! through `windowed`, return the output bytes via `finish`.
//!
//! Layout derivation (see `params`): one radix `b = sh.b_in` for every ciphertext and plaintext,
//! rank `sh.rank_out`, input ciphertexts really encrypted with `ckks_encrypt_sk` (so that their
//! metadata is what the library itself produces), evaluation keys in radix `sh.b_key` / `sh.dsize`.
//! Every CKKS op returns `Result`: an `Err` is unwrapped inside the monitored region, i.e. an error
//! in the reference run makes the shape inadmissible and an error that only shows up with the
//! declared-size window is a FIT violation.
//!
//! Which layout goes into a query: parameters named `res` / `a` get the destination / the input as
//! they are (for the `_assign` forms the receiver is both); a query with a single neutral
//! `ct_infos` (rotate, conjugate) gets the wider buffer of source and destination; the dot products
//! with plaintext weights get the widest ciphertext of the vector as `a`.
//! KNOWN FINDING (kept in the inventory on purpose): `ckks_mul_tmp_bytes(res, tsk)` /
//! `ckks_square_tmp_bytes(res, tsk)` and the composites built on them (`mul_add_ct`, `mul_sub_ct`,
//! `mul_many`, `dot_product_ct`) size the tensor buffer from `res` only, while the ops size it from
//! `max(a.max_k, b.max_k)`: whenever an input has more limbs than the destination the declared size
//! is too small (FIT:panic_with_declared_size); with destination >= inputs these ops are clean.
//!
//! Ops named `ckks_all_ops__<member>` / `ckks_all_ops_with_atk__<member>` run the member op with a
//! window of exactly the aggregate query's answer; the aggregate is told the widest ciphertext layout
//! of the case, the other operand and the destination are that wide or narrower.
macro_rules! core_ops4_impl {
    ($be:ty) => {
        pub mod ops4 {
            #[allow(unused_imports)]
            use super::ops::{finish_pub as finish, src_pub as src, windowed};
            #[allow(unused_imports)]
            use super::*;
            use crate::c12::ops::{Shape, draw};
            #[allow(unused_imports)]
            use poulpy_ckks::layouts::{
                CKKSCiphertext, CKKSConstPlaintextConversion, CKKSPlaintextConversion, CKKSPlaintextCstRnx, CKKSPlaintextCstZnx,
                CKKSPlaintextVecRnx, CKKSPlaintextVecZnx,
            };
            #[allow(unused_imports)]
            use poulpy_ckks::leveled::api::*;
            #[allow(unused_imports)]
            use poulpy_ckks::{CKKSInfos, CKKSMeta};
            #[allow(unused_imports)]
            use poulpy_core::layouts::{
                GLWEAutomorphismKey, GLWEAutomorphismKeyPrepared, GLWEAutomorphismKeyPreparedFactory, GLWEInfos, GLWEPlaintext,
                GLWETensorKey, GLWETensorKeyLayout, GLWETensorKeyPrepared, GLWETensorKeyPreparedFactory, LWEInfos,
            };
            #[allow(unused_imports)]
            use poulpy_core::{GLWEAutomorphismKeyEncryptSk, GLWETensorKeyEncryptSk};
            #[allow(unused_imports)]
            use poulpy_hal::layouts::{FillUniform, GaloisElement, WriterTo};

            pub const OPS4: &[&str] = &[
                "ckks_encrypt_sk",
                "ckks_decrypt",
                "ckks_extract_pt_znx",
                "ckks_add_into",
                "ckks_add_assign",
                "ckks_add_pt_vec_znx_into",
                "ckks_add_pt_vec_znx_assign",
                "ckks_add_pt_vec_rnx_into",
                "ckks_add_pt_vec_rnx_assign",
                "ckks_add_pt_const_znx_into",
                "ckks_add_pt_const_znx_assign",
                "ckks_add_pt_const_rnx_into",
                "ckks_add_pt_const_rnx_assign",
                "ckks_add_into_unsafe",
                "ckks_add_assign_unsafe",
                "ckks_add_pt_vec_znx_into_unsafe",
                "ckks_add_pt_vec_znx_assign_unsafe",
                "ckks_add_pt_vec_rnx_into_unsafe",
                "ckks_add_pt_vec_rnx_assign_unsafe",
                "ckks_add_pt_const_znx_into_unsafe",
                "ckks_add_pt_const_znx_assign_unsafe",
                "ckks_add_pt_const_rnx_into_unsafe",
                "ckks_add_pt_const_rnx_assign_unsafe",
                "ckks_sub_into",
                "ckks_sub_assign",
                "ckks_sub_pt_vec_znx_into",
                "ckks_sub_pt_vec_znx_assign",
                "ckks_sub_pt_vec_rnx_into",
                "ckks_sub_pt_vec_rnx_assign",
                "ckks_sub_pt_const_znx_into",
                "ckks_sub_pt_const_znx_assign",
                "ckks_sub_pt_const_rnx_into",
                "ckks_sub_pt_const_rnx_assign",
                "ckks_sub_into_unsafe",
                "ckks_sub_assign_unsafe",
                "ckks_sub_pt_vec_znx_into_unsafe",
                "ckks_sub_pt_vec_znx_assign_unsafe",
                "ckks_sub_pt_vec_rnx_into_unsafe",
                "ckks_sub_pt_vec_rnx_assign_unsafe",
                "ckks_sub_pt_const_znx_into_unsafe",
                "ckks_sub_pt_const_znx_assign_unsafe",
                "ckks_sub_pt_const_rnx_into_unsafe",
                "ckks_sub_pt_const_rnx_assign_unsafe",
                "ckks_neg_into",
                "ckks_mul_pow2_into",
                "ckks_mul_pow2_assign",
                "ckks_div_pow2_into",
                "ckks_rescale_into",
                "ckks_rescale_assign",
                "ckks_align_assign",
                "ckks_mul_into",
                "ckks_mul_assign",
                "ckks_square_into",
                "ckks_square_assign",
                "ckks_mul_pt_vec_znx_into",
                "ckks_mul_pt_vec_znx_assign",
                "ckks_mul_pt_vec_rnx_into",
                "ckks_mul_pt_vec_rnx_assign",
                "ckks_mul_pt_const_znx_into",
                "ckks_mul_pt_const_znx_assign",
                "ckks_mul_pt_const_rnx_into",
                "ckks_mul_pt_const_rnx_assign",
                "ckks_rotate_into",
                "ckks_rotate_assign",
                "ckks_conjugate_into",
                "ckks_conjugate_assign",
                "ckks_add_many",
                "ckks_mul_many",
                "ckks_mul_add_ct_into",
                "ckks_mul_add_pt_vec_znx_into",
                "ckks_mul_add_pt_vec_rnx_into",
                "ckks_mul_add_pt_const_znx_into",
                "ckks_mul_add_pt_const_rnx_into",
                "ckks_mul_sub_ct_into",
                "ckks_mul_sub_pt_vec_znx_into",
                "ckks_mul_sub_pt_vec_rnx_into",
                "ckks_mul_sub_pt_const_znx_into",
                "ckks_mul_sub_pt_const_rnx_into",
                "ckks_dot_product_ct",
                "ckks_dot_product_pt_vec_znx",
                "ckks_dot_product_pt_vec_rnx",
                "ckks_dot_product_pt_const_znx",
                "ckks_dot_product_pt_const_rnx",
                // aggregate query ckks_all_ops_tmp_bytes serving each member
                "ckks_all_ops__ckks_encrypt_sk",
                "ckks_all_ops__ckks_decrypt",
                "ckks_all_ops__ckks_add_into",
                "ckks_all_ops__ckks_add_assign",
                "ckks_all_ops__ckks_add_pt_vec_znx_into",
                "ckks_all_ops__ckks_add_pt_vec_rnx_into",
                "ckks_all_ops__ckks_add_pt_const_znx_into",
                "ckks_all_ops__ckks_add_pt_const_rnx_into",
                "ckks_all_ops__ckks_sub_into",
                "ckks_all_ops__ckks_sub_assign",
                "ckks_all_ops__ckks_sub_pt_vec_znx_into",
                "ckks_all_ops__ckks_sub_pt_vec_rnx_into",
                "ckks_all_ops__ckks_sub_pt_const_znx_into",
                "ckks_all_ops__ckks_sub_pt_const_rnx_into",
                "ckks_all_ops__ckks_neg_into",
                "ckks_all_ops__ckks_mul_pow2_into",
                "ckks_all_ops__ckks_div_pow2_into",
                "ckks_all_ops__ckks_rescale_into",
                "ckks_all_ops__ckks_align_assign",
                "ckks_all_ops__ckks_mul_into",
                "ckks_all_ops__ckks_mul_assign",
                "ckks_all_ops__ckks_square_into",
                "ckks_all_ops__ckks_square_assign",
                "ckks_all_ops__ckks_mul_pt_vec_znx_into",
                "ckks_all_ops__ckks_mul_pt_vec_rnx_into",
                "ckks_all_ops__ckks_mul_pt_const_znx_into",
                "ckks_all_ops__ckks_mul_pt_const_rnx_into",
                "ckks_all_ops__ckks_extract_pt_znx",
                "ckks_all_ops__ckks_add_pt_vec_znx_assign",
                "ckks_all_ops__ckks_sub_pt_vec_rnx_assign",
                "ckks_all_ops__ckks_add_pt_const_rnx_assign",
                "ckks_all_ops__ckks_mul_pow2_assign",
                "ckks_all_ops__ckks_rescale_assign",
                "ckks_all_ops__ckks_mul_pt_vec_znx_assign",
                "ckks_all_ops__ckks_mul_pt_vec_rnx_assign",
                "ckks_all_ops__ckks_mul_pt_const_znx_assign",
                "ckks_all_ops__ckks_mul_pt_const_rnx_assign",
                "ckks_all_ops__tensor_key_prepare",
                "ckks_all_ops__tensor_key_encrypt_sk",
                // aggregate query ckks_all_ops_with_atk_tmp_bytes
                "ckks_all_ops_with_atk__ckks_rotate_into",
                "ckks_all_ops_with_atk__ckks_rotate_assign",
                "ckks_all_ops_with_atk__ckks_conjugate_into",
                "ckks_all_ops_with_atk__ckks_conjugate_assign",
                "ckks_all_ops_with_atk__automorphism_key_encrypt_sk",
                "ckks_all_ops_with_atk__automorphism_key_prepare",
                "ckks_all_ops_with_atk__ckks_mul_into",
                "ckks_all_ops_with_atk__ckks_add_pt_vec_rnx_into",
                "ckks_all_ops_with_atk__ckks_decrypt",
            ];

            type Ct = CKKSCiphertext<Vec<u8>>;
            type SkP = GLWESecretPrepared<DeviceBuf<BE>, BE>;

            fn gl(n: u32, b: u32, k: usize, rank: u32) -> GLWELayout {
                GLWELayout {
                    n: Degree(n),
                    base2k: Base2K(b),
                    k: TorusPrecision(k as u32),
                    rank: Rank(rank),
                }
            }

            fn skp(c: &Ctx, rank: u32, seed: u64) -> (GLWESecret<Vec<u8>>, SkP) {
                let mut s: GLWESecret<Vec<u8>> = GLWESecret::alloc(Degree(c.n), Rank(rank));
                s.fill_ternary_prob(0.5, &mut src(seed, 1));
                let mut p: SkP = c.module.glwe_secret_prepared_alloc(Rank(rank));
                c.module.glwe_secret_prepare(&mut p, &s);
                (s, p)
            }

            fn meta_bytes(m: CKKSMeta) -> Vec<u8> {
                let mut v = (m.log_delta as u64).to_le_bytes().to_vec();
                v.extend_from_slice(&(m.log_budget as u64).to_le_bytes());
                v
            }

            /// Output of a ciphertext: limbs and the semantic metadata the op left behind.
            fn ct_out(ct: &Ct) -> Vec<Vec<u8>> {
                vec![ct.data().data.clone(), meta_bytes(ct.meta())]
            }

            fn ser<T: WriterTo>(x: &T) -> Vec<u8> {
                let mut bytes = Vec::new();
                x.write_to(&mut bytes).unwrap();
                bytes
            }

            /// Parameters derived from the Shape.
            struct P {
                b: u32,
                rank: u32,
                /// effective torus width (log_delta + log_budget) and log_delta of the two input ciphertexts
                eff_a: usize,
                ld_a: usize,
                eff_b: usize,
                ld_b: usize,
                /// storage width of the destination of the `_into` forms
                k_dst: usize,
                /// plaintext precision
                pt: CKKSMeta,
                /// shift amount of pow2 / rescale
                bits: usize,
                /// spare storage (bits) of the first operand beyond its effective width
                head: usize,
            }

            /// `agg`: the case runs under one of the aggregate queries, which are told a single ciphertext
            /// layout (the widest one, `eff_a`): the other operand and the destination are that wide or narrower.
            fn params(sh: &Shape, agg: bool) -> P {
                let b = sh.b_in;
                let bu = b as usize;
                let s = sh.seed;
                let eff_a = sh.k_in as usize + 2 * bu;
                let ld_a = 2 + ((s >> 8) as usize) % (eff_a / 2 - 1);
                let eff_b = if !agg {
                    sh.k_res as usize + 2 * bu
                } else if (s >> 36) & 1 == 0 {
                    eff_a
                } else {
                    (eff_a - (s >> 37) as usize % (bu + 2)).max(2 * ld_a)
                };
                let ld_b = if agg || sh.extra & 1 == 0 {
                    ld_a
                } else {
                    (ld_a + (s >> 20) as usize % 5).saturating_sub(2)
                }
                .min(eff_b / 2)
                .max(1);
                let k_dst = match ((sh.extra >> 1) % 4, agg) {
                    (0, _) | (2, true) => eff_a,
                    (1, _) => eff_a.saturating_sub(bu + 1).max(bu),
                    (2, false) => eff_a + bu,
                    (_, false) => sh.k_res as usize + bu,
                    (_, true) => eff_b,
                };
                // Plaintext precision, independent of the ciphertext's (the API only asks that the plaintext can be
                // aligned: `ct.log_budget + pt.log_delta >= pt.max_k` for the sums, `ct.log_budget >= pt.log_delta` for
                // the products): scaling equal / close to the ciphertext's, within one limb, at the limit the products
                // accept, more than a limb above the ciphertext's (rejected when it exceeds the budget).
                let lb_a = eff_a - ld_a;
                let ld_pt = match (s >> 27) % 8 {
                    0 | 1 => ld_a,
                    2 | 3 => (ld_a + (s >> 24) as usize % 5).saturating_sub(2).max(1),
                    4 => 1 + (s >> 24) as usize % bu,
                    5 => lb_a.saturating_sub((s >> 24) as usize % 3).max(1),
                    6 => (lb_a / 2).max(1),
                    _ => ld_a + bu + (s >> 24) as usize % bu,
                };
                // ... and its budget (integer part): a few bits, about one limb, `log_delta + log_budget` exactly whole
                // limbs, more than a limb below / at / above (by less or more than a limb) the ciphertext's budget;
                // above it the alignment is impossible and the op returns an error (inadmissible)
                let lb_pt = match (s >> 56) % 8 {
                    0..=2 => (s >> 28) as usize % 6,
                    3 => bu - 1 + (s >> 28) as usize % 3,
                    4 => ld_pt.next_multiple_of(bu) - ld_pt,
                    5 => lb_a.saturating_sub(bu + (s >> 28) as usize % bu),
                    6 => lb_a.saturating_sub((s >> 28) as usize % 3),
                    _ => lb_a + 1 + (s >> 28) as usize % (2 * bu),
                };
                let head = if !agg && (s >> 52) & 3 == 0 { bu } else { 0 };
                // flags bit 0: the second operand is no wider than the first and the destination at least as
                // wide as both (the res-only multiplication queries are then given the widest layout)
                let (eff_b, ld_b, k_dst) = if sh.flags & 1 == 1 {
                    let eb = eff_b.min(eff_a);
                    (eb, ld_b.min(eb / 2).max(1), k_dst.max(eff_a + head).max(eb))
                } else {
                    (eff_b, ld_b, k_dst)
                };
                P {
                    b,
                    rank: sh.rank_out,
                    eff_a,
                    ld_a,
                    eff_b,
                    ld_b,
                    k_dst,
                    pt: CKKSMeta {
                        log_delta: ld_pt,
                        log_budget: lb_pt,
                    },
                    // zero, below one limb, whole limbs, several limbs, the whole width and beyond (rescale / div_pow2
                    // reject what exceeds the budget, see `budget_bits`)
                    bits: draw::bits(s >> 32, bu, eff_a.div_ceil(bu)),
                    head,
                }
            }

            /// A ciphertext produced by the library's own encryption: width `eff`, scaling `ld`.
            #[allow(clippy::too_many_arguments)]
            fn enc(c: &Ctx, sp: &SkP, p: &P, eff: usize, ld: usize, seed: u64, tag: u8, big: &mut ScratchOwned<BE>) -> Ct {
                let infos = gl(c.n, p.b, eff, p.rank);
                // tag 10 is the first operand: one case in four its buffer has a spare limb
                let store = gl(c.n, p.b, eff + if tag == 10 { p.head } else { 0 }, p.rank);
                let mut ct: Ct = CKKSCiphertext::alloc_from_infos(&store).unwrap();
                let mut pt = CKKSPlaintextVecZnx::alloc(
                    Degree(c.n),
                    Base2K(p.b),
                    CKKSMeta {
                        log_delta: ld,
                        log_budget: 0,
                    },
                );
                pt.data_mut().fill_uniform(p.b as usize, &mut src(seed, tag));
                let e = EncryptionLayout::new_from_default_sigma(infos).unwrap();
                c.module
                    .ckks_encrypt_sk(&mut ct, &pt, sp, &e, &mut src(seed, tag + 1), &mut src(seed, tag + 2), big.borrow())
                    .unwrap();
                ct
            }

            fn alloc_ct(c: &Ctx, p: &P, k: usize) -> Ct {
                CKKSCiphertext::alloc_from_infos(&gl(c.n, p.b, k, p.rank)).unwrap()
            }

            fn pt_znx(c: &Ctx, p: &P, meta: CKKSMeta, seed: u64, tag: u8) -> CKKSPlaintextVecZnx<Vec<u8>> {
                let mut pt = CKKSPlaintextVecZnx::alloc(Degree(c.n), Base2K(p.b), meta);
                pt.data_mut().fill_uniform(p.b as usize, &mut src(seed, tag));
                pt
            }

            fn pt_rnx(c: &Ctx, seed: u64, tag: u8) -> CKKSPlaintextVecRnx<f64> {
                let mut pt = CKKSPlaintextVecRnx::<f64>::alloc(c.n as usize).unwrap();
                let mut sx = src(seed, tag);
                for x in pt.data_mut().iter_mut() {
                    *x = sx.next_f64(-1.0, 1.0);
                }
                pt
            }

            /// Constant with both parts, real only, imaginary only, or (rarely) empty; values: fractions in (-1, 1),
            /// exact zero, +-1, too small to survive the quantisation, negative, and with an integer part that fills
            /// the plaintext's `log_budget` (the digit vector then has several significant limbs).
            fn cst_rnx(sh: &Shape, tag: u8, pt: &CKKSMeta) -> CKKSPlaintextCstRnx<f64> {
                let mut sx = src(sh.seed, tag);
                let int_bits = pt.log_budget.saturating_sub(1).min(40) as i32;
                let mut val = |k: u64| -> f64 {
                    let x = sx.next_f64(-1.0, 1.0);
                    match k % 8 {
                        0 => 0.0,
                        1 => 1.0,
                        2 => -1.0,
                        3 => x * 2f64.powi(-(pt.log_delta.min(1000) as i32) - 3),
                        4 => x * 2f64.powi(int_bits),
                        5 => -(x.abs() * 0.5 + 0.5) * 2f64.powi(int_bits),
                        _ => x,
                    }
                };
                let re = val(sh.seed >> 59);
                let im = val((sh.seed >> 59) / 8 + tag as u64);
                match (sh.seed >> 40) % 8 {
                    0 | 1 => CKKSPlaintextCstRnx::new(Some(re), None),
                    2 | 3 => CKKSPlaintextCstRnx::new(None, Some(im)),
                    4 => CKKSPlaintextCstRnx::new(None, None),
                    _ => CKKSPlaintextCstRnx::new(Some(re), Some(im)),
                }
            }

            /// Slot rotation (the key is for `galois_element(rot)` = 5^|rot| * sign(rot) mod 2N): none, +-1, small,
            /// around the N/2 slots, beyond, negative, large.
            fn rotation(sh: &Shape) -> i64 {
                let half = sh.n as i64 / 2;
                let t = [1, 2, 3, 0, -1, -2, half - 1, half, half + 1, -(half - 1), 2 * half + 1, -(3 * half + 2), 1 << 20, -((1 << 20) + 1)];
                t[((sh.seed >> 60) as usize * 8 + sh.extra as usize) % t.len()]
            }

            fn key_k(sh: &Shape, k_ct: usize) -> (u32, u32) {
                // one more digit than what covers the ciphertext: dnum * dsize <= size of the key
                let unit = sh.dsize * sh.b_key;
                (k_ct as u32 + unit, (k_ct as u32).div_ceil(unit))
            }

            fn tsk_layout(sh: &Shape, p: &P, k_ct: usize) -> GLWETensorKeyLayout {
                let (k, dnum) = key_k(sh, k_ct);
                GLWETensorKeyLayout {
                    n: Degree(sh.n),
                    base2k: Base2K(sh.b_key),
                    k: TorusPrecision(k),
                    rank: Rank(p.rank),
                    dnum: Dnum(dnum),
                    dsize: Dsize(sh.dsize),
                }
            }

            fn atk_layout(sh: &Shape, p: &P, k_ct: usize) -> GLWEAutomorphismKeyLayout {
                let (k, dnum) = key_k(sh, k_ct);
                GLWEAutomorphismKeyLayout {
                    n: Degree(sh.n),
                    base2k: Base2K(sh.b_key),
                    k: TorusPrecision(k),
                    rank: Rank(p.rank),
                    dnum: Dnum(dnum),
                    dsize: Dsize(sh.dsize),
                }
            }

            /// Tensor key prepared from random limbs (the products are arithmetic in the key).
            fn tsk_prepared(c: &Ctx, sh: &Shape, infos: &GLWETensorKeyLayout, big: &mut ScratchOwned<BE>) -> GLWETensorKeyPrepared<DeviceBuf<BE>, BE> {
                let mut tsk: GLWETensorKey<Vec<u8>> = GLWETensorKey::alloc_from_infos(infos);
                tsk.fill_uniform(sh.b_key as usize, &mut src(sh.seed, 40));
                let mut tp = c.module.alloc_tensor_key_prepared_from_infos(infos);
                c.module.prepare_tensor_key(&mut tp, &tsk, big.borrow());
                tp
            }

            /// Automorphism key for Galois element `gal`, encrypted for real (the element matters).
            fn atk_real(
                c: &Ctx,
                sh: &Shape,
                infos: &GLWEAutomorphismKeyLayout,
                s_raw: &GLWESecret<Vec<u8>>,
                gal: i64,
                big: &mut ScratchOwned<BE>,
            ) -> GLWEAutomorphismKey<Vec<u8>> {
                let mut atk: GLWEAutomorphismKey<Vec<u8>> = GLWEAutomorphismKey::alloc_from_infos(infos);
                let e = EncryptionLayout::new_from_default_sigma(*infos).unwrap();
                c.module
                    .glwe_automorphism_key_encrypt_sk(&mut atk, gal, s_raw, &e, &mut src(sh.seed, 43), &mut src(sh.seed, 44), big.borrow());
                atk
            }

            fn atk_prepared(
                c: &Ctx,
                sh: &Shape,
                infos: &GLWEAutomorphismKeyLayout,
                s_raw: &GLWESecret<Vec<u8>>,
                gal: i64,
                big: &mut ScratchOwned<BE>,
            ) -> GLWEAutomorphismKeyPrepared<DeviceBuf<BE>, BE> {
                let atk = atk_real(c, sh, infos, s_raw, gal, big);
                let mut ap = c.module.glwe_automorphism_key_prepared_alloc_from_infos(&atk);
                c.module.glwe_automorphism_key_prepare(&mut ap, &atk, big.borrow());
                ap
            }

            const ADDSUB_KINDS: &[&str] = &[
                "into",
                "assign",
                "pt_vec_znx_into",
                "pt_vec_znx_assign",
                "pt_vec_rnx_into",
                "pt_vec_rnx_assign",
                "pt_const_znx_into",
                "pt_const_znx_assign",
                "pt_const_rnx_into",
                "pt_const_rnx_assign",
            ];

            /// `ckks_{add,sub}_<kind>[_unsafe]` -> (is_add, kind, is_unsafe)
            fn addsub_kind(op: &str) -> Option<(bool, &'static str, bool)> {
                let (base, uns) = match op.strip_suffix("_unsafe") {
                    Some(b) => (b, true),
                    None => (op, false),
                };
                let (add, rest) = if let Some(r) = base.strip_prefix("ckks_add_") {
                    (true, r)
                } else if let Some(r) = base.strip_prefix("ckks_sub_") {
                    (false, r)
                } else {
                    return None;
                };
                ADDSUB_KINDS.iter().find(|k| **k == rest).map(|k| (add, *k, uns))
            }

            pub fn core_op4(op: &str, sh: &Shape, w: &Window) -> Option<RunResult> {
                if !OPS4.contains(&op) {
                    return None;
                }
                let (agg, base) = if let Some(b) = op.strip_prefix("ckks_all_ops_with_atk__") {
                    (2u8, b)
                } else if let Some(b) = op.strip_prefix("ckks_all_ops__") {
                    (1u8, b)
                } else {
                    (0u8, op)
                };
                Some(run(base, agg, sh, w))
            }

            fn run(op: &str, agg: u8, sh: &Shape, w: &Window) -> RunResult {
                let c = ctx(sh.n, 1);
                let m = &c.module;
                let mut big: ScratchOwned<BE> = ScratchOwned::alloc(1 << 22);
                let p = params(sh, agg != 0);
                let n = sh.n;
                let seed = sh.seed;
                let b2k = Base2K(p.b);
                let (s_raw, sp) = skp(c, p.rank, seed);
                let lb_a = p.eff_a - p.ld_a;
                let ct_infos = gl(n, p.b, p.eff_a, p.rank);
                let k_ct_max = (p.eff_a + p.head).max(p.eff_b).max(p.k_dst);
                let tski = tsk_layout(sh, &p, k_ct_max);
                let atki = atk_layout(sh, &p, k_ct_max);
                // the size handed to the op: its own query, or one of the aggregate queries
                let decl = |own: usize| -> usize {
                    match agg {
                        0 => own,
                        1 => m.ckks_all_ops_tmp_bytes(&ct_infos, &tski, &p.pt),
                        _ => m.ckks_all_ops_with_atk_tmp_bytes(&ct_infos, &tski, &atki, &p.pt),
                    }
                };
                macro_rules! go {
                    ($own:expr, |$s:ident| $call:expr, $outs:expr) => {{
                        let declared = decl($own);
                        let r = windowed(declared, w, &mut |$s| {
                            $call.unwrap();
                        });
                        finish(r, declared, $outs)
                    }};
                }
                match op {
                    "ckks_encrypt_sk" => {
                        let mut ct = alloc_ct(c, &p, p.eff_a);
                        let pt = pt_znx(
                            c,
                            &p,
                            CKKSMeta {
                                log_delta: p.ld_a,
                                log_budget: p.pt.log_budget,
                            },
                            seed,
                            2,
                        );
                        let e = EncryptionLayout::new_from_default_sigma(ct_infos).unwrap();
                        go!(
                            m.ckks_encrypt_sk_tmp_bytes(&ct_infos),
                            |s| m.ckks_encrypt_sk(&mut ct, &pt, &sp, &e, &mut src(seed, 3), &mut src(seed, 4), s),
                            ct_out(&ct)
                        )
                    }
                    "ckks_decrypt" => {
                        let a = enc(c, &sp, &p, p.eff_a, p.ld_a, seed, 10, &mut big);
                        let mut pt = CKKSPlaintextVecZnx::alloc(
                            Degree(n),
                            b2k,
                            CKKSMeta {
                                log_delta: p.pt.log_delta,
                                log_budget: p.pt.log_budget.min(lb_a),
                            },
                        );
                        go!(
                            m.ckks_decrypt_tmp_bytes(&a),
                            |s| m.ckks_decrypt(&mut pt, &a, &sp, s),
                            vec![pt.data().data.clone()]
                        )
                    }
                    "ckks_extract_pt_znx" => {
                        let mut full: GLWEPlaintext<Vec<u8>> = GLWEPlaintext::alloc_from_infos(&ct_infos);
                        full.data_mut().fill_uniform(p.b as usize, &mut src(seed, 2));
                        let src_meta = CKKSMeta {
                            log_delta: p.ld_a,
                            log_budget: lb_a,
                        };
                        let mut pt = CKKSPlaintextVecZnx::alloc(Degree(n), b2k, p.pt);
                        go!(
                            m.ckks_extract_pt_znx_tmp_bytes(),
                            |s| m.ckks_extract_pt_znx(&mut pt, &full, &src_meta, s),
                            vec![pt.data().data.clone()]
                        )
                    }
                    _ if addsub_kind(op).is_some() => {
                        // ckks_{add,sub}_<kind>[_unsafe]: the unsafe forms share the query of the safe ones
                        let (add, kind, uns) = addsub_kind(op).unwrap();
                        macro_rules! as4 {
                            ($as_:ident, $au:ident, $ss:ident, $su:ident, $args:tt) => {
                                match (add, uns) {
                                    (true, false) => m.$as_ $args,
                                    (true, true) => unsafe { m.$au $args },
                                    (false, false) => m.$ss $args,
                                    (false, true) => unsafe { m.$su $args },
                                }
                            };
                        }
                        let mut a = enc(c, &sp, &p, p.eff_a, p.ld_a, seed, 10, &mut big);
                        let mut dst = alloc_ct(c, &p, p.k_dst);
                        match kind {
                            "into" => {
                                let b = enc(c, &sp, &p, p.eff_b, p.ld_b, seed, 20, &mut big);
                                let own = if add { m.ckks_add_tmp_bytes() } else { m.ckks_sub_tmp_bytes() };
                                go!(
                                    own,
                                    |s| as4!(ckks_add_into, ckks_add_into_unsafe, ckks_sub_into, ckks_sub_into_unsafe, (&mut dst, &a, &b, s)),
                                    ct_out(&dst)
                                )
                            }
                            "assign" => {
                                let b = enc(c, &sp, &p, p.eff_b, p.ld_b, seed, 20, &mut big);
                                let own = if add { m.ckks_add_tmp_bytes() } else { m.ckks_sub_tmp_bytes() };
                                go!(
                                    own,
                                    |s| as4!(ckks_add_assign, ckks_add_assign_unsafe, ckks_sub_assign, ckks_sub_assign_unsafe, (&mut a, &b, s)),
                                    ct_out(&a)
                                )
                            }
                            "pt_vec_znx_into" | "pt_vec_znx_assign" => {
                                let pt = pt_znx(c, &p, p.pt, seed, 30);
                                let own = if add { m.ckks_add_pt_vec_znx_tmp_bytes() } else { m.ckks_sub_pt_vec_znx_tmp_bytes() };
                                if kind == "pt_vec_znx_into" {
                                    go!(
                                        own,
                                        |s| as4!(
                                            ckks_add_pt_vec_znx_into,
                                            ckks_add_pt_vec_znx_into_unsafe,
                                            ckks_sub_pt_vec_znx_into,
                                            ckks_sub_pt_vec_znx_into_unsafe,
                                            (&mut dst, &a, &pt, s)
                                        ),
                                        ct_out(&dst)
                                    )
                                } else {
                                    go!(
                                        own,
                                        |s| as4!(
                                            ckks_add_pt_vec_znx_assign,
                                            ckks_add_pt_vec_znx_assign_unsafe,
                                            ckks_sub_pt_vec_znx_assign,
                                            ckks_sub_pt_vec_znx_assign_unsafe,
                                            (&mut a, &pt, s)
                                        ),
                                        ct_out(&a)
                                    )
                                }
                            }
                            "pt_vec_rnx_into" => {
                                let pt = pt_rnx(c, seed, 30);
                                let own = if add {
                                    m.ckks_add_pt_vec_rnx_tmp_bytes(&dst, &a, &p.pt)
                                } else {
                                    m.ckks_sub_pt_vec_rnx_tmp_bytes(&dst, &a, &p.pt)
                                };
                                go!(
                                    own,
                                    |s| as4!(
                                        ckks_add_pt_vec_rnx_into,
                                        ckks_add_pt_vec_rnx_into_unsafe,
                                        ckks_sub_pt_vec_rnx_into,
                                        ckks_sub_pt_vec_rnx_into_unsafe,
                                        (&mut dst, &a, &pt, p.pt, s)
                                    ),
                                    ct_out(&dst)
                                )
                            }
                            "pt_vec_rnx_assign" => {
                                let pt = pt_rnx(c, seed, 30);
                                let own = if add {
                                    m.ckks_add_pt_vec_rnx_tmp_bytes(&a, &a, &p.pt)
                                } else {
                                    m.ckks_sub_pt_vec_rnx_tmp_bytes(&a, &a, &p.pt)
                                };
                                go!(
                                    own,
                                    |s| as4!(
                                        ckks_add_pt_vec_rnx_assign,
                                        ckks_add_pt_vec_rnx_assign_unsafe,
                                        ckks_sub_pt_vec_rnx_assign,
                                        ckks_sub_pt_vec_rnx_assign_unsafe,
                                        (&mut a, &pt, p.pt, s)
                                    ),
                                    ct_out(&a)
                                )
                            }
                            _ => {
                                // the digits of a quantized constant are injected as they are: they have to be
                                // aligned to the receiver's log_budget (see to_znx_at_k)
                                let into = kind.ends_with("_into");
                                let offset = if into { p.eff_a.saturating_sub(dst.max_k().as_usize()) } else { 0 };
                                let res_lb = lb_a.saturating_sub(offset);
                                // (the integer part of the value fits the receiver's budget)
                                let cst = cst_rnx(
                                    sh,
                                    31,
                                    &CKKSMeta {
                                        log_delta: p.pt.log_delta,
                                        log_budget: p.pt.log_budget.min(res_lb),
                                    },
                                );
                                let cst_z = cst.to_znx_at_k(b2k, res_lb + p.pt.log_delta, p.pt.log_delta).unwrap();
                                let own = if add { m.ckks_add_pt_const_tmp_bytes() } else { m.ckks_sub_pt_const_tmp_bytes() };
                                match kind {
                                    "pt_const_znx_into" => go!(
                                        own,
                                        |s| as4!(
                                            ckks_add_pt_const_znx_into,
                                            ckks_add_pt_const_znx_into_unsafe,
                                            ckks_sub_pt_const_znx_into,
                                            ckks_sub_pt_const_znx_into_unsafe,
                                            (&mut dst, &a, &cst_z, s)
                                        ),
                                        ct_out(&dst)
                                    ),
                                    "pt_const_znx_assign" => go!(
                                        own,
                                        |s| as4!(
                                            ckks_add_pt_const_znx_assign,
                                            ckks_add_pt_const_znx_assign_unsafe,
                                            ckks_sub_pt_const_znx_assign,
                                            ckks_sub_pt_const_znx_assign_unsafe,
                                            (&mut a, &cst_z, s)
                                        ),
                                        ct_out(&a)
                                    ),
                                    "pt_const_rnx_into" => go!(
                                        own,
                                        |s| as4!(
                                            ckks_add_pt_const_rnx_into,
                                            ckks_add_pt_const_rnx_into_unsafe,
                                            ckks_sub_pt_const_rnx_into,
                                            ckks_sub_pt_const_rnx_into_unsafe,
                                            (&mut dst, &a, &cst, p.pt, s)
                                        ),
                                        ct_out(&dst)
                                    ),
                                    _ => go!(
                                        own,
                                        |s| as4!(
                                            ckks_add_pt_const_rnx_assign,
                                            ckks_add_pt_const_rnx_assign_unsafe,
                                            ckks_sub_pt_const_rnx_assign,
                                            ckks_sub_pt_const_rnx_assign_unsafe,
                                            (&mut a, &cst, p.pt, s)
                                        ),
                                        ct_out(&a)
                                    ),
                                }
                            }
                        }
                    }
                    "ckks_neg_into" | "ckks_mul_pow2_into" | "ckks_mul_pow2_assign" | "ckks_div_pow2_into" | "ckks_rescale_into" | "ckks_rescale_assign" => {
                        let mut a = enc(c, &sp, &p, p.eff_a, p.ld_a, seed, 10, &mut big);
                        let mut dst = alloc_ct(c, &p, p.k_dst);
                        // mul_pow2 takes any amount; rescale / div_pow2 consume budget: the whole budget exactly, or
                        // (one draw in two of those beyond it) more than there is - an error, i.e. inadmissible
                        let bits = if op.starts_with("ckks_mul_pow2") || p.bits <= lb_a || (seed >> 31) & 1 == 1 { p.bits } else { lb_a };
                        match op {
                            "ckks_neg_into" => go!(m.ckks_neg_tmp_bytes(), |s| m.ckks_neg_into(&mut dst, &a, s), ct_out(&dst)),
                            "ckks_mul_pow2_into" => {
                                go!(m.ckks_mul_pow2_tmp_bytes(), |s| m.ckks_mul_pow2_into(&mut dst, &a, bits, s), ct_out(&dst))
                            }
                            "ckks_mul_pow2_assign" => {
                                go!(m.ckks_mul_pow2_tmp_bytes(), |s| m.ckks_mul_pow2_assign(&mut a, bits, s), ct_out(&a))
                            }
                            "ckks_div_pow2_into" => {
                                go!(m.ckks_div_pow2_tmp_bytes(), |s| m.ckks_div_pow2_into(&mut dst, &a, bits, s), ct_out(&dst))
                            }
                            "ckks_rescale_into" => {
                                go!(m.ckks_rescale_tmp_bytes(), |s| m.ckks_rescale_into(&mut dst, bits, &a, s), ct_out(&dst))
                            }
                            _ => go!(m.ckks_rescale_tmp_bytes(), |s| m.ckks_rescale_assign(&mut a, bits, s), ct_out(&a)),
                        }
                    }
                    "ckks_align_assign" => {
                        let ld_b = p.ld_b;
                        let mut a = enc(c, &sp, &p, p.eff_a, p.ld_a, seed, 10, &mut big);
                        let mut b = enc(c, &sp, &p, p.eff_b, ld_b, seed, 20, &mut big);
                        go!(m.ckks_align_tmp_bytes(), |s| m.ckks_align_assign(&mut a, &mut b, s), {
                            let mut o = ct_out(&a);
                            o.extend(ct_out(&b));
                            o
                        })
                    }
                    "ckks_mul_into" | "ckks_mul_assign" | "ckks_square_into" | "ckks_square_assign" => {
                        let tp = tsk_prepared(c, sh, &tski, &mut big);
                        let mut a = enc(c, &sp, &p, p.eff_a, p.ld_a, seed, 10, &mut big);
                        let b = enc(c, &sp, &p, p.eff_b, p.ld_b, seed, 20, &mut big);
                        let mut dst = alloc_ct(c, &p, p.k_dst);
                        match op {
                            "ckks_mul_into" => go!(m.ckks_mul_tmp_bytes(&dst, &tski), |s| m.ckks_mul_into(&mut dst, &a, &b, &tp, s), ct_out(&dst)),
                            "ckks_mul_assign" => go!(m.ckks_mul_tmp_bytes(&a, &tski), |s| m.ckks_mul_assign(&mut a, &b, &tp, s), ct_out(&a)),
                            "ckks_square_into" => {
                                go!(m.ckks_square_tmp_bytes(&dst, &tski), |s| m.ckks_square_into(&mut dst, &a, &tp, s), ct_out(&dst))
                            }
                            _ => go!(m.ckks_square_tmp_bytes(&a, &tski), |s| m.ckks_square_assign(&mut a, &tp, s), ct_out(&a)),
                        }
                    }
                    "ckks_mul_pt_vec_znx_into" | "ckks_mul_pt_vec_znx_assign" | "ckks_mul_pt_vec_rnx_into" | "ckks_mul_pt_vec_rnx_assign" => {
                        let mut a = enc(c, &sp, &p, p.eff_a, p.ld_a, seed, 10, &mut big);
                        let mut dst = alloc_ct(c, &p, p.k_dst);
                        let ptz = pt_znx(c, &p, p.pt, seed, 30);
                        let ptr = pt_rnx(c, seed, 30);
                        match op {
                            "ckks_mul_pt_vec_znx_into" => go!(
                                m.ckks_mul_pt_vec_znx_tmp_bytes(&dst, &a, &p.pt),
                                |s| m.ckks_mul_pt_vec_znx_into(&mut dst, &a, &ptz, s),
                                ct_out(&dst)
                            ),
                            "ckks_mul_pt_vec_znx_assign" => go!(
                                m.ckks_mul_pt_vec_znx_tmp_bytes(&a, &a, &p.pt),
                                |s| m.ckks_mul_pt_vec_znx_assign(&mut a, &ptz, s),
                                ct_out(&a)
                            ),
                            "ckks_mul_pt_vec_rnx_into" => go!(
                                m.ckks_mul_pt_vec_rnx_tmp_bytes(&dst, &a, &p.pt),
                                |s| m.ckks_mul_pt_vec_rnx_into(&mut dst, &a, &ptr, p.pt, s),
                                ct_out(&dst)
                            ),
                            _ => go!(
                                m.ckks_mul_pt_vec_rnx_tmp_bytes(&a, &a, &p.pt),
                                |s| m.ckks_mul_pt_vec_rnx_assign(&mut a, &ptr, p.pt, s),
                                ct_out(&a)
                            ),
                        }
                    }
                    "ckks_mul_pt_const_znx_into" | "ckks_mul_pt_const_znx_assign" | "ckks_mul_pt_const_rnx_into" | "ckks_mul_pt_const_rnx_assign" => {
                        let mut a = enc(c, &sp, &p, p.eff_a, p.ld_a, seed, 10, &mut big);
                        let mut dst = alloc_ct(c, &p, p.k_dst);
                        let cst = cst_rnx(sh, 31, &p.pt);
                        let cst_z = cst.to_znx(b2k, p.pt).unwrap();
                        match op {
                            "ckks_mul_pt_const_znx_into" => go!(
                                m.ckks_mul_pt_const_tmp_bytes(&dst, &a, &p.pt),
                                |s| m.ckks_mul_pt_const_znx_into(&mut dst, &a, &cst_z, s),
                                ct_out(&dst)
                            ),
                            "ckks_mul_pt_const_znx_assign" => go!(
                                m.ckks_mul_pt_const_tmp_bytes(&a, &a, &p.pt),
                                |s| m.ckks_mul_pt_const_znx_assign(&mut a, &cst_z, s),
                                ct_out(&a)
                            ),
                            "ckks_mul_pt_const_rnx_into" => go!(
                                m.ckks_mul_pt_const_tmp_bytes(&dst, &a, &p.pt),
                                |s| m.ckks_mul_pt_const_rnx_into(&mut dst, &a, &cst, p.pt, s),
                                ct_out(&dst)
                            ),
                            _ => go!(
                                m.ckks_mul_pt_const_tmp_bytes(&a, &a, &p.pt),
                                |s| m.ckks_mul_pt_const_rnx_assign(&mut a, &cst, p.pt, s),
                                ct_out(&a)
                            ),
                        }
                    }
                    "ckks_rotate_into" | "ckks_rotate_assign" | "ckks_conjugate_into" | "ckks_conjugate_assign" => {
                        let mut a = enc(c, &sp, &p, p.eff_a, p.ld_a, seed, 10, &mut big);
                        let mut dst = alloc_ct(c, &p, p.k_dst);
                        let rot = rotation(sh);
                        if op.starts_with("ckks_rotate") {
                            let mut keys: std::collections::HashMap<i64, GLWEAutomorphismKeyPrepared<DeviceBuf<BE>, BE>> =
                                std::collections::HashMap::new();
                            keys.insert(rot, atk_prepared(c, sh, &atki, &s_raw, m.galois_element(rot), &mut big));
                            if op == "ckks_rotate_into" {
                                // the query takes one ciphertext layout: the wider buffer of source and destination
                                let own = if dst.size() >= a.size() { m.ckks_rotate_tmp_bytes(&dst, &atki) } else { m.ckks_rotate_tmp_bytes(&a, &atki) };
                                go!(own, |s| m.ckks_rotate_into(&mut dst, &a, rot, &keys, s), ct_out(&dst))
                            } else {
                                go!(m.ckks_rotate_tmp_bytes(&a, &atki), |s| m.ckks_rotate_assign(&mut a, rot, &keys, s), ct_out(&a))
                            }
                        } else {
                            let key = atk_prepared(c, sh, &atki, &s_raw, -1, &mut big);
                            if op == "ckks_conjugate_into" {
                                let own = if dst.size() >= a.size() { m.ckks_conjugate_tmp_bytes(&dst, &atki) } else { m.ckks_conjugate_tmp_bytes(&a, &atki) };
                                go!(own, |s| m.ckks_conjugate_into(&mut dst, &a, &key, s), ct_out(&dst))
                            } else {
                                go!(m.ckks_conjugate_tmp_bytes(&a, &atki), |s| m.ckks_conjugate_assign(&mut a, &key, s), ct_out(&a))
                            }
                        }
                    }
                    "ckks_add_many" => {
                        let cnt = 1 + (seed >> 48) as usize % 5;
                        let cts: Vec<Ct> = (0..cnt)
                            .map(|i| {
                                let (eff, ld) = if i % 2 == 0 { (p.eff_a, p.ld_a) } else { (p.eff_b, p.ld_b) };
                                enc(c, &sp, &p, eff, ld, seed ^ i as u64, 10, &mut big)
                            })
                            .collect();
                        let refs: Vec<&Ct> = cts.iter().collect();
                        let mut dst = alloc_ct(c, &p, p.k_dst);
                        go!(m.ckks_add_many_tmp_bytes(), |s| m.ckks_add_many(&mut dst, &refs, s), ct_out(&dst))
                    }
                    "ckks_mul_many" => {
                        let tp = tsk_prepared(c, sh, &tski, &mut big);
                        let cnt = 1 + (seed >> 48) as usize % 5;
                        // a product tree of depth d consumes d * log_delta bits of budget: keep log_delta small
                        let ld = 2 + (seed >> 8) as usize % 4;
                        let cts: Vec<Ct> = (0..cnt)
                            .map(|i| {
                                let eff = if i == 2 { p.eff_b } else { p.eff_a };
                                enc(c, &sp, &p, eff, ld, seed ^ i as u64, 10, &mut big)
                            })
                            .collect();
                        let refs: Vec<&Ct> = cts.iter().collect();
                        let mut dst = alloc_ct(c, &p, p.k_dst);
                        go!(
                            m.ckks_mul_many_tmp_bytes(cnt, &dst, &tski),
                            |s| m.ckks_mul_many(&mut dst, &refs, &tp, s),
                            ct_out(&dst)
                        )
                    }
                    "ckks_mul_add_ct_into" | "ckks_mul_sub_ct_into" => {
                        let tp = tsk_prepared(c, sh, &tski, &mut big);
                        let a = enc(c, &sp, &p, p.eff_a, p.ld_a, seed, 10, &mut big);
                        let b = enc(c, &sp, &p, p.eff_b, p.ld_b, seed, 20, &mut big);
                        let mut dst = enc(c, &sp, &p, p.k_dst, p.ld_a.min(p.k_dst / 2).max(1), seed, 50, &mut big);
                        if op == "ckks_mul_add_ct_into" {
                            go!(
                                m.ckks_mul_add_ct_tmp_bytes(&dst, &tski),
                                |s| m.ckks_mul_add_ct_into(&mut dst, &a, &b, &tp, s),
                                ct_out(&dst)
                            )
                        } else {
                            go!(
                                m.ckks_mul_sub_ct_tmp_bytes(&dst, &tski),
                                |s| m.ckks_mul_sub_ct_into(&mut dst, &a, &b, &tp, s),
                                ct_out(&dst)
                            )
                        }
                    }
                    "ckks_mul_add_pt_vec_znx_into"
                    | "ckks_mul_sub_pt_vec_znx_into"
                    | "ckks_mul_add_pt_vec_rnx_into"
                    | "ckks_mul_sub_pt_vec_rnx_into"
                    | "ckks_mul_add_pt_const_znx_into"
                    | "ckks_mul_sub_pt_const_znx_into"
                    | "ckks_mul_add_pt_const_rnx_into"
                    | "ckks_mul_sub_pt_const_rnx_into" => {
                        let a = enc(c, &sp, &p, p.eff_a, p.ld_a, seed, 10, &mut big);
                        let mut dst = enc(c, &sp, &p, p.k_dst, p.ld_a.min(p.k_dst / 2).max(1), seed, 50, &mut big);
                        let ptz = pt_znx(c, &p, p.pt, seed, 30);
                        let ptr = pt_rnx(c, seed, 30);
                        let cst = cst_rnx(sh, 31, &p.pt);
                        let cst_z = cst.to_znx(b2k, p.pt).unwrap();
                        match op {
                            "ckks_mul_add_pt_vec_znx_into" => go!(
                                m.ckks_mul_add_pt_vec_znx_tmp_bytes(&dst, &a, &p.pt),
                                |s| m.ckks_mul_add_pt_vec_znx_into(&mut dst, &a, &ptz, s),
                                ct_out(&dst)
                            ),
                            "ckks_mul_sub_pt_vec_znx_into" => go!(
                                m.ckks_mul_sub_pt_vec_znx_tmp_bytes(&dst, &a, &p.pt),
                                |s| m.ckks_mul_sub_pt_vec_znx_into(&mut dst, &a, &ptz, s),
                                ct_out(&dst)
                            ),
                            "ckks_mul_add_pt_vec_rnx_into" => go!(
                                m.ckks_mul_add_pt_vec_rnx_tmp_bytes(&dst, &a, &p.pt),
                                |s| m.ckks_mul_add_pt_vec_rnx_into(&mut dst, &a, &ptr, p.pt, s),
                                ct_out(&dst)
                            ),
                            "ckks_mul_sub_pt_vec_rnx_into" => go!(
                                m.ckks_mul_sub_pt_vec_rnx_tmp_bytes(&dst, &a, &p.pt),
                                |s| m.ckks_mul_sub_pt_vec_rnx_into(&mut dst, &a, &ptr, p.pt, s),
                                ct_out(&dst)
                            ),
                            "ckks_mul_add_pt_const_znx_into" => go!(
                                m.ckks_mul_add_pt_const_tmp_bytes(&dst, &a, &p.pt),
                                |s| m.ckks_mul_add_pt_const_znx_into(&mut dst, &a, &cst_z, s),
                                ct_out(&dst)
                            ),
                            "ckks_mul_sub_pt_const_znx_into" => go!(
                                m.ckks_mul_sub_pt_const_tmp_bytes(&dst, &a, &p.pt),
                                |s| m.ckks_mul_sub_pt_const_znx_into(&mut dst, &a, &cst_z, s),
                                ct_out(&dst)
                            ),
                            "ckks_mul_add_pt_const_rnx_into" => go!(
                                m.ckks_mul_add_pt_const_tmp_bytes(&dst, &a, &p.pt),
                                |s| m.ckks_mul_add_pt_const_rnx_into(&mut dst, &a, &cst, p.pt, s),
                                ct_out(&dst)
                            ),
                            _ => go!(
                                m.ckks_mul_sub_pt_const_tmp_bytes(&dst, &a, &p.pt),
                                |s| m.ckks_mul_sub_pt_const_rnx_into(&mut dst, &a, &cst, p.pt, s),
                                ct_out(&dst)
                            ),
                        }
                    }
                    "ckks_dot_product_ct" => {
                        let tp = tsk_prepared(c, sh, &tski, &mut big);
                        let cnt = 1 + (seed >> 48) as usize % 4;
                        // variants: everything aligned / one left operand with a smaller budget / one right
                        // operand with a smaller budget / mixed log_delta (term-by-term path)
                        let variant = (seed >> 44) % 4;
                        let av: Vec<Ct> = (0..cnt)
                            .map(|i| {
                                let (eff, ld) = match variant {
                                    1 if i == 1 => (p.eff_a.saturating_sub(1 + p.bits).max(2 * p.ld_a), p.ld_a),
                                    3 if i == 1 => (p.eff_a, p.ld_b),
                                    _ => (p.eff_a, p.ld_a),
                                };
                                enc(c, &sp, &p, eff, ld, seed ^ i as u64, 10, &mut big)
                            })
                            .collect();
                        let bv: Vec<Ct> = (0..cnt)
                            .map(|i| {
                                let eff = if variant == 2 && i == 0 { p.eff_b.saturating_sub(1 + p.bits).max(2 * p.ld_b) } else { p.eff_b };
                                enc(c, &sp, &p, eff, p.ld_b, seed ^ i as u64, 20, &mut big)
                            })
                            .collect();
                        let ar: Vec<&Ct> = av.iter().collect();
                        let br: Vec<&Ct> = bv.iter().collect();
                        let mut dst = alloc_ct(c, &p, p.k_dst);
                        go!(
                            m.ckks_dot_product_ct_tmp_bytes(cnt, &dst, &tski),
                            |s| m.ckks_dot_product_ct(&mut dst, &ar, &br, &tp, s),
                            ct_out(&dst)
                        )
                    }
                    "ckks_dot_product_pt_vec_znx" | "ckks_dot_product_pt_vec_rnx" | "ckks_dot_product_pt_const_znx" | "ckks_dot_product_pt_const_rnx" => {
                        let cnt = 1 + (seed >> 48) as usize % 4;
                        let av: Vec<Ct> = (0..cnt)
                            .map(|i| {
                                let (eff, ld) = if i % 2 == 0 { (p.eff_a, p.ld_a) } else { (p.eff_b, p.ld_b) };
                                enc(c, &sp, &p, eff, ld, seed ^ i as u64, 10, &mut big)
                            })
                            .collect();
                        let ar: Vec<&Ct> = av.iter().collect();
                        let mut dst = alloc_ct(c, &p, p.k_dst);
                        // the queries take one input layout: the widest of the ciphertext vector
                        let a_wide: &Ct = av.iter().max_by_key(|x| x.size()).unwrap();
                        match op {
                            "ckks_dot_product_pt_vec_znx" => {
                                let pts: Vec<CKKSPlaintextVecZnx<Vec<u8>>> = (0..cnt).map(|i| pt_znx(c, &p, p.pt, seed ^ i as u64, 30)).collect();
                                let pr: Vec<&CKKSPlaintextVecZnx<Vec<u8>>> = pts.iter().collect();
                                go!(
                                    m.ckks_dot_product_pt_vec_znx_tmp_bytes(&dst, a_wide, &p.pt),
                                    |s| m.ckks_dot_product_pt_vec_znx(&mut dst, &ar, &pr, s),
                                    ct_out(&dst)
                                )
                            }
                            "ckks_dot_product_pt_vec_rnx" => {
                                let pts: Vec<CKKSPlaintextVecRnx<f64>> = (0..cnt).map(|i| pt_rnx(c, seed ^ i as u64, 30)).collect();
                                let pr: Vec<&CKKSPlaintextVecRnx<f64>> = pts.iter().collect();
                                go!(
                                    m.ckks_dot_product_pt_vec_rnx_tmp_bytes(&dst, a_wide, &p.pt),
                                    |s| m.ckks_dot_product_pt_vec_rnx(&mut dst, &ar, &pr, p.pt, s),
                                    ct_out(&dst)
                                )
                            }
                            "ckks_dot_product_pt_const_znx" => {
                                let cs: Vec<CKKSPlaintextCstZnx> = (0..cnt).map(|i| cst_rnx(sh, 31 + i as u8, &p.pt).to_znx(b2k, p.pt).unwrap()).collect();
                                let cr: Vec<&CKKSPlaintextCstZnx> = cs.iter().collect();
                                go!(
                                    m.ckks_dot_product_pt_const_tmp_bytes(&dst, a_wide, &p.pt),
                                    |s| m.ckks_dot_product_pt_const_znx(&mut dst, &ar, &cr, s),
                                    ct_out(&dst)
                                )
                            }
                            _ => {
                                let cs: Vec<CKKSPlaintextCstRnx<f64>> = (0..cnt).map(|i| cst_rnx(sh, 31 + i as u8, &p.pt)).collect();
                                let cr: Vec<&CKKSPlaintextCstRnx<f64>> = cs.iter().collect();
                                go!(
                                    m.ckks_dot_product_pt_const_tmp_bytes(&dst, a_wide, &p.pt),
                                    |s| m.ckks_dot_product_pt_const_rnx(&mut dst, &ar, &cr, p.pt, s),
                                    ct_out(&dst)
                                )
                            }
                        }
                    }
                    // key set-up members of the aggregate queries (their own queries are covered in ops3.rs)
                    "tensor_key_prepare" | "tensor_key_encrypt_sk" => {
                        let mut tsk: GLWETensorKey<Vec<u8>> = GLWETensorKey::alloc_from_infos(&tski);
                        if op == "tensor_key_encrypt_sk" {
                            let e = EncryptionLayout::new_from_default_sigma(tski).unwrap();
                            let declared = decl(m.glwe_tensor_key_encrypt_sk_tmp_bytes(&tski));
                            let r = windowed(declared, w, &mut |s| {
                                m.glwe_tensor_key_encrypt_sk(&mut tsk, &s_raw, &e, &mut src(seed, 3), &mut src(seed, 4), s)
                            });
                            finish(r, declared, vec![ser(&tsk)])
                        } else {
                            tsk.fill_uniform(sh.b_key as usize, &mut src(seed, 40));
                            let mut tp = m.alloc_tensor_key_prepared_from_infos(&tski);
                            let declared = decl(m.prepare_tensor_key_tmp_bytes(&tski));
                            let r = windowed(declared, w, &mut |s| m.prepare_tensor_key(&mut tp, &tsk, s));
                            // observe the prepared key through a product with generous scratch
                            let a = enc(c, &sp, &p, p.eff_a, p.ld_a, seed, 10, &mut big);
                            let mut dst = alloc_ct(c, &p, p.k_dst);
                            if r.0.is_ok() {
                                m.ckks_square_into(&mut dst, &a, &tp, big.borrow()).unwrap();
                            }
                            finish(r, declared, ct_out(&dst))
                        }
                    }
                    "automorphism_key_encrypt_sk" | "automorphism_key_prepare" => {
                        let gal = m.galois_element(rotation(sh));
                        if op == "automorphism_key_encrypt_sk" {
                            let mut atk: GLWEAutomorphismKey<Vec<u8>> = GLWEAutomorphismKey::alloc_from_infos(&atki);
                            let e = EncryptionLayout::new_from_default_sigma(atki).unwrap();
                            let declared = decl(m.glwe_automorphism_key_encrypt_sk_tmp_bytes(&atki));
                            let r = windowed(declared, w, &mut |s| {
                                m.glwe_automorphism_key_encrypt_sk(&mut atk, gal, &s_raw, &e, &mut src(seed, 3), &mut src(seed, 4), s)
                            });
                            finish(r, declared, vec![ser(&atk)])
                        } else {
                            let atk = atk_real(c, sh, &atki, &s_raw, gal, &mut big);
                            let mut ap = m.glwe_automorphism_key_prepared_alloc_from_infos(&atk);
                            let declared = decl(m.glwe_automorphism_key_prepare_tmp_bytes(&atki));
                            let r = windowed(declared, w, &mut |s| m.glwe_automorphism_key_prepare(&mut ap, &atk, s));
                            let mut a = enc(c, &sp, &p, p.eff_a, p.ld_a, seed, 10, &mut big);
                            if r.0.is_ok() {
                                m.ckks_conjugate_assign(&mut a, &ap, big.borrow()).unwrap();
                            }
                            finish(r, declared, ct_out(&a))
                        }
                    }
                    _ => (Err(format!("unknown op {op}")), None),
                }
            }
        }
    };
}
pub(crate) use core_ops4_impl;
