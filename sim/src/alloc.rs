//! S2: global allocator seam.
//!
//! (i) refuses (and reports through a raw write(2) to stderr) any single request above a cap:
//!     the "hostile allocation size" fault. The process then aborts through
//!     `handle_alloc_error`; the parent attributes the abort to the run announced in CURRENT_RUN.
//! (ii) side table remembering the true alignment of over-aligned blocks, so that
//!     `dealloc` always passes the layout the block was allocated with (poulpy-hal's
//!     `alloc_aligned` frees 64-aligned blocks as `Vec<u8>`, i.e. with align 1; see DESIGN 2.2 S2).
use std::alloc::{GlobalAlloc, Layout, System};
use std::sync::atomic::{AtomicU64, AtomicUsize, Ordering};

pub struct SimAlloc;

pub static CAP: AtomicUsize = AtomicUsize::new(1 << 30);
pub static CURRENT_RUN: AtomicU64 = AtomicU64::new(u64::MAX);
pub static REFUSED: AtomicU64 = AtomicU64::new(0);
pub static MAX_SEEN: AtomicUsize = AtomicUsize::new(0);
/// bytes currently allocated through this allocator (leak hunting aid)
pub static LIVE: std::sync::atomic::AtomicIsize = std::sync::atomic::AtomicIsize::new(0);

const TABLE_BITS: usize = 16;
const TABLE: usize = 1 << TABLE_BITS;
static SIDE: [AtomicUsize; TABLE] = [const { AtomicUsize::new(0) }; TABLE];

#[inline]
fn slot(addr: usize) -> usize {
    (addr >> 6).wrapping_mul(0x9E37_79B9_7F4A_7C15usize) >> (usize::BITS as usize - TABLE_BITS)
}

const MAX_PROBE: usize = 128;

fn side_insert(addr: usize, log_align: usize) {
    let v = addr | log_align; // addr is >= 32-aligned, low 5 bits free
    let mut i = slot(addr);
    for _ in 0..MAX_PROBE {
        let cur = SIDE[i].load(Ordering::Acquire);
        if (cur == 0 || cur == 1) && SIDE[i].compare_exchange(cur, v, Ordering::AcqRel, Ordering::Relaxed).is_ok() {
            return;
        }
        i = (i + 1) & (TABLE - 1);
    }
    // neighbourhood full: give up tracking (a native dealloc with a smaller align is tolerated by System)
}

fn side_take(addr: usize) -> Option<usize> {
    let mut i = slot(addr);
    for _ in 0..MAX_PROBE {
        let v = SIDE[i].load(Ordering::Acquire);
        if v == 0 {
            return None;
        }
        if v != 1 && (v & !31) == addr {
            // leave a tombstone only when the probe chain continues behind this slot, otherwise free it:
            // keeps the table from silting up with tombstones over millions of alloc/free pairs
            let next = SIDE[(i + 1) & (TABLE - 1)].load(Ordering::Acquire);
            SIDE[i].store(if next == 0 { 0 } else { 1 }, Ordering::Release);
            return Some(v & 31);
        }
        i = (i + 1) & (TABLE - 1);
    }
    None
}

fn report_refusal(size: usize) {
    // No allocation here: format into a stack buffer and write(2) it.
    let mut buf = [0u8; 96];
    let mut n = 0;
    let mut put = |s: &[u8], buf: &mut [u8; 96], n: &mut usize| {
        for b in s {
            if *n < 96 {
                buf[*n] = *b;
                *n += 1;
            }
        }
    };
    put(b"\nSIM-ALLOC-REFUSED run=", &mut buf, &mut n);
    let mut num = |mut v: u64, buf: &mut [u8; 96], n: &mut usize| {
        let mut d = [0u8; 20];
        let mut k = 0;
        if v == 0 {
            d[0] = b'0';
            k = 1;
        }
        while v > 0 {
            d[k] = b'0' + (v % 10) as u8;
            v /= 10;
            k += 1;
        }
        for i in (0..k).rev() {
            if *n < 96 {
                buf[*n] = d[i];
                *n += 1;
            }
        }
    };
    num(CURRENT_RUN.load(Ordering::Relaxed), &mut buf, &mut n);
    put(b" size=", &mut buf, &mut n);
    num(size as u64, &mut buf, &mut n);
    put(b"\n", &mut buf, &mut n);
    unsafe extern "C" {
        fn write(fd: i32, buf: *const u8, n: usize) -> isize;
    }
    unsafe {
        write(2, buf.as_ptr(), n);
    }
}

unsafe impl GlobalAlloc for SimAlloc {
    unsafe fn alloc(&self, layout: Layout) -> *mut u8 {
        let size = layout.size();
        if size > CAP.load(Ordering::Relaxed) {
            REFUSED.fetch_add(1, Ordering::Relaxed);
            report_refusal(size);
            crate::driver::crash_dump(b"SIM-ALLOC-REFUSED request above the simulated heap cap");
            return std::ptr::null_mut();
        }
        if size > MAX_SEEN.load(Ordering::Relaxed) {
            MAX_SEEN.store(size, Ordering::Relaxed);
        }
        let p = unsafe { System.alloc(layout) };
        LIVE.fetch_add(size as isize, Ordering::Relaxed);
        if layout.align() > 16 && !p.is_null() {
            side_insert(p as usize, layout.align().trailing_zeros() as usize);
        }
        p
    }
    unsafe fn alloc_zeroed(&self, layout: Layout) -> *mut u8 {
        let size = layout.size();
        if size > CAP.load(Ordering::Relaxed) {
            REFUSED.fetch_add(1, Ordering::Relaxed);
            report_refusal(size);
            crate::driver::crash_dump(b"SIM-ALLOC-REFUSED request above the simulated heap cap");
            return std::ptr::null_mut();
        }
        let p = unsafe { System.alloc_zeroed(layout) };
        LIVE.fetch_add(size as isize, Ordering::Relaxed);
        if layout.align() > 16 && !p.is_null() {
            side_insert(p as usize, layout.align().trailing_zeros() as usize);
        }
        p
    }
    unsafe fn dealloc(&self, ptr: *mut u8, layout: Layout) {
        let addr = ptr as usize;
        let mut lay = layout;
        if addr & 31 == 0 {
            if let Some(la) = side_take(addr) {
                lay = unsafe { Layout::from_size_align_unchecked(layout.size(), 1usize << la) };
            }
        }
        LIVE.fetch_sub(layout.size() as isize, Ordering::Relaxed);
        unsafe { System.dealloc(ptr, lay) }
    }
    unsafe fn realloc(&self, ptr: *mut u8, layout: Layout, new_size: usize) -> *mut u8 {
        // Route through alloc/dealloc so the cap and the side table see everything.
        let new_layout = unsafe { Layout::from_size_align_unchecked(new_size, layout.align()) };
        let np = unsafe { self.alloc(new_layout) };
        if !np.is_null() {
            unsafe {
                std::ptr::copy_nonoverlapping(ptr, np, layout.size().min(new_size));
                self.dealloc(ptr, layout);
            }
        }
        np
    }
}
