//! Process orchestration shared by the three checks: self-exec'd workers over disjoint unit
//! ranges, crash attribution, fresh-process replay confirmation, known-findings matching,
//! evidence files and exit codes (0 held / 1 violation / 2 harness error).
use crate::alloc;
use serde_json::{Value, json};
use std::collections::{BTreeMap, BTreeSet};
use std::io::Write;
use std::process::{Command, Stdio};
use std::sync::atomic::{AtomicI32, AtomicPtr, AtomicUsize, Ordering};
use std::time::Instant;

pub const DEFAULT_SEED: u64 = 20260925;

#[derive(Clone, Copy, PartialEq, Eq, Debug)]
pub enum Tier {
    Quick,
    Thorough,
}

impl Tier {
    pub fn name(&self) -> &'static str {
        match self {
            Tier::Quick => "quick",
            Tier::Thorough => "thorough",
        }
    }
    pub fn parse(s: &str) -> Tier {
        match s {
            "quick" => Tier::Quick,
            "thorough" => Tier::Thorough,
            _ => harness_error(&format!("unknown tier {s}")),
        }
    }
}

pub fn harness_error(msg: &str) -> ! {
    eprintln!("HARNESS-ERROR: {msg}");
    std::process::exit(2);
}

#[derive(Clone, Debug)]
pub struct Viol {
    pub unit: u64,
    pub oracle: String,
    pub class: String,
    pub subject: String,
    pub detail: String,
    pub replay: Value,
}

impl Viol {
    pub fn key(&self) -> (String, String, String) {
        (self.oracle.clone(), self.class.clone(), self.subject.clone())
    }
    pub fn to_json(&self, prop: &str, seed: u64) -> Value {
        json!({"property": prop, "oracle": self.oracle, "class": self.class, "subject": self.subject,
               "detail": self.detail, "unit": self.unit, "seed": seed, "replay": self.replay})
    }
}

#[derive(Default, Clone, Debug)]
pub struct Acc {
    pub counters: BTreeMap<String, u64>,
    pub sets: BTreeMap<String, BTreeSet<u64>>,
    pub log_hash: u64,
    pub evaluations: u64,
    pub units_done: u64,
    pub samples: Vec<Value>,
    /// per-unit event-log hashes (determinism self-check compares them across processes)
    pub unit_hashes: BTreeMap<u64, u64>,
}

impl Acc {
    pub fn bump(&mut self, k: &str) {
        self.add(k, 1);
    }
    pub fn add(&mut self, k: &str, n: u64) {
        if n > 0 {
            *self.counters.entry(k.to_string()).or_insert(0) += n;
        }
    }
    pub fn set_insert(&mut self, set: &str, v: u64) {
        self.sets.entry(set.to_string()).or_default().insert(v);
    }
    pub fn merge(&mut self, o: &Acc) {
        for (k, v) in &o.counters {
            *self.counters.entry(k.clone()).or_insert(0) += v;
        }
        for (k, s) in &o.sets {
            self.sets.entry(k.clone()).or_default().extend(s.iter().copied());
        }
        self.log_hash = self.log_hash.wrapping_add(o.log_hash);
        for (k, v) in &o.unit_hashes {
            self.unit_hashes.insert(*k, *v);
        }
        self.evaluations += o.evaluations;
        self.units_done += o.units_done;
        for s in &o.samples {
            if self.samples.len() < 6 {
                self.samples.push(s.clone());
            }
        }
    }
    /// order-independent contribution of one unit to the event-log hash
    pub fn log_unit(&mut self, unit: u64, h: u64) {
        self.log_hash = self.log_hash.wrapping_add(crate::util::fnv_mix(crate::util::fnv_mix(0x1234, unit), h));
        self.unit_hashes.insert(unit, h);
    }
    pub fn to_json(&self) -> Value {
        json!({"t":"stats","counters": self.counters,
               "sets": self.sets.iter().map(|(k, s)| (k.clone(), s.iter().copied().collect::<Vec<u64>>())).collect::<BTreeMap<_,_>>(),
               "log_hash": self.log_hash, "evaluations": self.evaluations, "units_done": self.units_done, "samples": self.samples,
               "unit_hashes": self.unit_hashes.iter().map(|(k, v)| (k.to_string(), *v)).collect::<BTreeMap<String, u64>>()})
    }
    pub fn from_json(v: &Value) -> Acc {
        let mut a = Acc::default();
        if let Some(c) = v["counters"].as_object() {
            for (k, x) in c {
                a.counters.insert(k.clone(), x.as_u64().unwrap_or(0));
            }
        }
        if let Some(c) = v["sets"].as_object() {
            for (k, x) in c {
                a.sets
                    .insert(k.clone(), x.as_array().unwrap().iter().map(|y| y.as_u64().unwrap()).collect());
            }
        }
        a.log_hash = v["log_hash"].as_u64().unwrap_or(0);
        a.evaluations = v["evaluations"].as_u64().unwrap_or(0);
        a.units_done = v["units_done"].as_u64().unwrap_or(0);
        a.samples = v["samples"].as_array().cloned().unwrap_or_default();
        if let Some(c) = v["unit_hashes"].as_object() {
            for (k, x) in c {
                a.unit_hashes.insert(k.parse().unwrap_or(0), x.as_u64().unwrap_or(0));
            }
        }
        a
    }
}

/// What a check plugs into the driver.
pub trait CheckImpl {
    fn id(&self) -> &'static str;
    fn level(&self) -> &'static str;
    fn units(&self, tier: Tier, seed: u64) -> u64;
    /// Runs one unit; pushes violations (already minimised) into `viols`.
    fn run_unit(&mut self, tier: Tier, seed: u64, unit: u64, acc: &mut Acc, viols: &mut Vec<Viol>);
    /// Re-executes a replay object; returns the violation it produces, if any.
    fn replay(&mut self, replay: &Value) -> Option<(String, String, String)>;
    /// Extra evidence: rule text, assumptions, components.
    fn describe(&self, tier: Tier, acc: &Acc) -> Value;
    /// Secondary engines run by the parent process after the units (e.g. Miri): returns
    /// (violations, evidence object merged under coverage.secondary_engine).
    fn secondary(&mut self, _tier: Tier, _seed: u64) -> (Vec<Viol>, Value) {
        (Vec::new(), Value::Null)
    }
}

// ---------- crash attribution (used by the allocator seam and by aborts in general) ----------

static CRASH_FD: AtomicI32 = AtomicI32::new(-1);
static CUR_PTR: AtomicPtr<u8> = AtomicPtr::new(std::ptr::null_mut());
static CUR_LEN: AtomicUsize = AtomicUsize::new(0);
thread_local! {
    static CUR_BUF: std::cell::RefCell<String> = const { std::cell::RefCell::new(String::new()) };
}

unsafe extern "C" {
    fn malloc_trim(pad: usize) -> i32;
    fn write(fd: i32, buf: *const u8, n: usize) -> isize;
    fn open(path: *const u8, flags: i32, mode: u32) -> i32;
    fn ftruncate(fd: i32, len: i64) -> i32;
    fn lseek(fd: i32, off: i64, whence: i32) -> i64;
}

pub fn crash_open(path: &str) {
    let mut p = path.as_bytes().to_vec();
    p.push(0);
    // O_WRONLY|O_CREAT|O_TRUNC = 1|64|512
    let fd = unsafe { open(p.as_ptr(), 1 | 64 | 512, 0o644) };
    CRASH_FD.store(fd, Ordering::SeqCst);
}

/// Announces the case about to run. Cheap: keeps the JSON text in a thread-local buffer.
pub fn announce(unit: u64, replay_json: &dyn Fn() -> String) {
    if CRASH_FD.load(Ordering::Relaxed) < 0 {
        return;
    }
    alloc::CURRENT_RUN.store(unit, Ordering::Relaxed);
    CUR_BUF.with(|b| {
        let mut b = b.borrow_mut();
        CUR_LEN.store(0, Ordering::SeqCst);
        b.clear();
        b.push_str(&replay_json());
        CUR_PTR.store(b.as_mut_ptr(), Ordering::SeqCst);
        CUR_LEN.store(b.len(), Ordering::SeqCst);
    });
}

/// Called from the allocator (no allocation allowed here): dump the announced case.
pub fn crash_dump(reason: &[u8]) {
    let fd = CRASH_FD.load(Ordering::SeqCst);
    if fd < 0 {
        return;
    }
    let p = CUR_PTR.load(Ordering::SeqCst);
    let n = CUR_LEN.load(Ordering::SeqCst);
    unsafe {
        ftruncate(fd, 0);
        lseek(fd, 0, 0);
        write(fd, reason.as_ptr(), reason.len());
        write(fd, b"\n".as_ptr(), 1);
        if !p.is_null() && n > 0 {
            write(fd, p, n);
        }
    }
}

// ---------- worker ----------

pub fn worker_main(check: &mut dyn CheckImpl, args: &[String]) -> ! {
    // args: tier seed from to stride crashfile
    let tier = Tier::parse(&args[0]);
    let seed: u64 = args[1].parse().unwrap();
    let from: u64 = args[2].parse().unwrap();
    let to: u64 = args[3].parse().unwrap();
    let stride: u64 = args[4].parse().unwrap();
    crash_open(&args[5]);
    // optional 7th argument `list=u1,u2,...`: run exactly these units in this order (HISTORY oracle)
    let list: Option<Vec<u64>> = args
        .get(6)
        .and_then(|a| a.strip_prefix("list="))
        .map(|l| l.split(',').filter_map(|x| x.parse().ok()).collect());
    // the cap is C18's fault seam (hostile length fields); C12's wide shapes legitimately build keys of
    // a few hundred MiB
    alloc::CAP.store(if check.id() == "C18" { 64 << 20 } else { 1 << 30 }, Ordering::SeqCst);
    crate::util::install_quiet_panic_hook();
    let stdout = std::io::stdout();
    let mut acc = Acc::default();
    let units: Vec<u64> = match list {
        Some(l) => l,
        None => (from..to).step_by(stride.max(1) as usize).collect(),
    };
    let mut u = from;
    let mut since = 0;
    for unit in units {
        u = unit;
        let mut viols = Vec::new();
        alloc::CURRENT_RUN.store(u, Ordering::Relaxed);
        let t_unit = Instant::now();
        check.run_unit(tier, seed, u, &mut acc, &mut viols);
        if t_unit.elapsed().as_secs() >= 5 {
            // not part of any decision or hash: a hint for whoever tunes the tiers
            eprintln!("slow unit {u} of {}: {:.1}s (live heap {} MB)", check.id(), t_unit.elapsed().as_secs_f64(), alloc::LIVE.load(Ordering::Relaxed) >> 20);
            acc.bump("units_slower_than_5s");
        }
        acc.units_done += 1;
        let mut o = stdout.lock();
        for v in viols {
            let mut j = v.to_json(check.id(), seed);
            j["t"] = json!("viol");
            writeln!(o, "{j}").unwrap();
        }
        writeln!(o, "{}", json!({"t":"hb","unit": u})).unwrap();
        since += 1;
        if since >= 32 {
            since = 0;
            unsafe {
                malloc_trim(0);
            }
            if std::env::var("SIM_TRACE_LEAKS").is_ok() {
                eprintln!("unit {u}: live heap {} MB", alloc::LIVE.load(Ordering::Relaxed) >> 20);
            }
            writeln!(o, "{}", json!({"t":"progress","next": u + stride, "acc": acc.to_json()})).unwrap();
        }
        o.flush().unwrap();
    }
    let mut o = stdout.lock();
    writeln!(o, "{}", json!({"t":"done","next": u + stride, "acc": acc.to_json()})).unwrap();
    o.flush().unwrap();
    std::process::exit(0);
}

// ---------- parent ----------

fn self_exe() -> std::path::PathBuf {
    std::env::current_exe().unwrap_or_else(|e| harness_error(&format!("current_exe: {e}")))
}

pub fn verif_root() -> String {
    std::env::var("VERIF_ROOT").unwrap_or_else(|_| "/verif".into())
}

struct WorkerOutcome {
    acc: Acc,
    viols: Vec<Viol>,
    crashed_at: Option<(u64, String, Option<Value>)>, // (unit, reason, replay)
    next: u64,
}

fn parse_viol(v: &Value) -> Viol {
    Viol {
        unit: v["unit"].as_u64().unwrap_or(0),
        oracle: v["oracle"].as_str().unwrap_or("?").to_string(),
        class: v["class"].as_str().unwrap_or("?").to_string(),
        subject: v["subject"].as_str().unwrap_or("?").to_string(),
        detail: v["detail"].as_str().unwrap_or("").to_string(),
        replay: v["replay"].clone(),
    }
}

fn run_worker(prop: &str, tier: Tier, seed: u64, from: u64, to: u64, stride: u64, crashfile: &str, timeout_s: u64) -> WorkerOutcome {
    run_worker_ex(prop, tier, seed, from, to, stride, crashfile, timeout_s, None)
}

/// Hash of unit `u` after the units of `list` (which ends with `u`) ran in this order in one fresh process.
fn unit_hash_after(prop: &str, tier: Tier, seed: u64, list: &[u64], u: u64) -> Option<u64> {
    let dir = format!("{}/target/run/{}", verif_root(), prop);
    let _ = std::fs::create_dir_all(&dir);
    let l = list.iter().map(|x| x.to_string()).collect::<Vec<_>>().join(",");
    let o = run_worker_ex(prop, tier, seed, 0, 0, 1, &format!("{dir}/crash-hist-{}.json", std::process::id()), 900, Some(l));
    o.acc.unit_hashes.get(&u).copied()
}

/// Does a violation with this key show at unit `u` when the units of `list` (ending with `u`) run in this order
/// in one fresh process?
fn viol_after(prop: &str, tier: Tier, seed: u64, list: &[u64], u: u64, key: &(String, String, String)) -> bool {
    let dir = format!("{}/target/run/{}", verif_root(), prop);
    let _ = std::fs::create_dir_all(&dir);
    let l = list.iter().map(|x| x.to_string()).collect::<Vec<_>>().join(",");
    let o = run_worker_ex(prop, tier, seed, 0, 0, 1, &format!("{dir}/crash-hist-{}.json", std::process::id()), 900, Some(l));
    o.viols.iter().any(|v| v.unit == u && v.key() == *key)
}

#[allow(clippy::too_many_arguments)]
fn run_worker_ex(
    prop: &str,
    tier: Tier,
    seed: u64,
    from: u64,
    to: u64,
    stride: u64,
    crashfile: &str,
    timeout_s: u64,
    list: Option<String>,
) -> WorkerOutcome {
    let _ = std::fs::remove_file(crashfile);
    // no unit of any check takes more than a few seconds; ten minutes without a finished unit is a stall
    let stall_s: u64 = std::env::var("VERIF_STALL_S").ok().and_then(|s| s.parse().ok()).unwrap_or(600);
    let mut child = Command::new(self_exe())
        .args([
            "worker",
            prop,
            tier.name(),
            &seed.to_string(),
            &from.to_string(),
            &to.to_string(),
            &stride.to_string(),
            crashfile,
        ])
        .args(list.iter().map(|l| format!("list={l}")))
        // scenarios spawn many short-lived threads: without a cap glibc keeps one malloc arena per thread
        // and never returns their free memory (a thorough run grew to 4 GiB per worker and was OOM-killed)
        .env("MALLOC_ARENA_MAX", "2")
        .stdout(Stdio::piped())
        .stderr(Stdio::piped())
        .spawn()
        .unwrap_or_else(|e| harness_error(&format!("spawn worker: {e}")));
    let mut so = child.stdout.take().unwrap();
    let mut se = child.stderr.take().unwrap();
    // stdout is read line by line so that the watchdog can tell a stalled worker (no unit finished for
    // a long time: a stuck schedule, a livelock, a probe that never ends) from a busy one
    let last_activity = std::sync::Arc::new(AtomicUsize::new(0));
    let la = last_activity.clone();
    let t1 = std::thread::spawn(move || {
        use std::io::BufRead;
        let mut s = String::new();
        let mut rd = std::io::BufReader::new(&mut so);
        let t0 = Instant::now();
        loop {
            let mut line = String::new();
            match rd.read_line(&mut line) {
                Ok(0) | Err(_) => break,
                Ok(_) => {
                    la.store(t0.elapsed().as_secs() as usize, Ordering::Relaxed);
                    if !line.starts_with("{\"t\":\"hb\"") {
                        s.push_str(&line);
                    }
                }
            }
        }
        s
    });
    let t2 = std::thread::spawn(move || {
        let mut s = Vec::new();
        let _ = std::io::Read::read_to_end(&mut se, &mut s);
        String::from_utf8_lossy(&s).to_string()
    });
    // watchdog
    let start = Instant::now();
    let status = loop {
        match child.try_wait() {
            Ok(Some(s)) => break Some(s),
            Ok(None) => {
                let idle = (start.elapsed().as_secs() as usize).saturating_sub(last_activity.load(Ordering::Relaxed));
                if start.elapsed().as_secs() > timeout_s || idle as u64 > stall_s {
                    let _ = child.kill();
                    let _ = child.wait();
                    break None;
                }
                std::thread::sleep(std::time::Duration::from_millis(20));
            }
            Err(e) => harness_error(&format!("wait: {e}")),
        }
    };
    let out = t1.join().unwrap();
    let err = t2.join().unwrap();
    let mut acc = Acc::default();
    let mut viols = Vec::new();
    let mut next = from;
    let mut done = false;
    for line in out.lines() {
        let Ok(v) = serde_json::from_str::<Value>(line) else { continue };
        match v["t"].as_str() {
            Some("viol") => viols.push(parse_viol(&v)),
            Some("progress") => {
                acc = Acc::from_json(&v["acc"]);
                next = v["next"].as_u64().unwrap();
            }
            Some("done") => {
                acc = Acc::from_json(&v["acc"]);
                next = v["next"].as_u64().unwrap();
                done = true;
            }
            _ => {}
        }
    }
    // violations reported after the last progress line belong to units >= next: keep them, the units are re-run
    // only from the crash point on, so drop violations of units that will be re-run.
    let mut crashed_at = None;
    if !done {
        let Some(status) = status else {
            harness_error(&format!(
                "worker {prop} [{from}..{to}) exceeded the watchdog ({timeout_s}s total / {stall_s}s without a finished unit; last progress: next unit {next}): stuck schedule, livelock or endless loop\n{err}"
            ));
        };
        // abnormal end: attribute through the crash file
        let cf = std::fs::read_to_string(crashfile).unwrap_or_default();
        let mut it = cf.splitn(2, '\n');
        let reason = it.next().unwrap_or("").to_string();
        let body = it.next().unwrap_or("");
        let replay: Option<Value> = serde_json::from_str(body).ok();
        let unit = replay.as_ref().and_then(|r| r["unit"].as_u64());
        match unit {
            Some(u) if !reason.is_empty() => {
                viols.retain(|v| v.unit < u);
                crashed_at = Some((u, reason, replay.map(|r| r["replay"].clone())));
                // stats since the last progress line are lost; units in [next, u) are not re-run
                next = u + stride;
            }
            _ => {
                harness_error(&format!(
                    "worker {prop} [{from}..{to}) died ({status:?}) without an attributable crash record\nstderr:\n{}",
                    err.chars().rev().take(2000).collect::<String>().chars().rev().collect::<String>()
                ));
            }
        }
    }
    WorkerOutcome {
        acc,
        viols,
        crashed_at,
        next,
    }
}

pub struct CheckResult {
    pub acc: Acc,
    pub viols: Vec<Viol>,
    pub wall_s: f64,
}

/// Runs all units of a check over `workers` processes.
pub fn run_units(check: &dyn CheckImpl, tier: Tier, seed: u64, workers: u64) -> CheckResult {
    let t0 = Instant::now();
    let units = check.units(tier, seed);
    let prop = check.id().to_string();
    let dir = format!("{}/target/run/{}", verif_root(), prop);
    let _ = std::fs::create_dir_all(&dir);
    let workers = workers.min(units.max(1));
    let timeout_s: u64 = std::env::var("VERIF_WORKER_TIMEOUT_S").ok().and_then(|s| s.parse().ok()).unwrap_or(match tier {
        Tier::Quick => 900,
        Tier::Thorough => 7200,
    });
    let mut handles = Vec::new();
    for w in 0..workers {
        let prop = prop.clone();
        let dir = dir.clone();
        handles.push(std::thread::spawn(move || {
            let mut acc = Acc::default();
            let mut viols: Vec<Viol> = Vec::new();
            let mut from = w;
            let mut crashes = 0u64;
            loop {
                let crashfile = format!("{dir}/crash-{w}.json");
                let o = run_worker(&prop, tier, seed, from, units, workers, &crashfile, timeout_s);
                acc.merge(&o.acc);
                viols.extend(o.viols);
                match o.crashed_at {
                    None => break,
                    Some((u, reason, replay)) => {
                        crashes += 1;
                        let subject = replay
                            .as_ref()
                            .and_then(|r| r["kind"].as_str().or(r["subject"].as_str()))
                            .unwrap_or("?")
                            .to_string();
                        viols.push(Viol {
                            unit: u,
                            oracle: "NOPANIC".into(),
                            class: format!("abort:{}", reason.split(' ').next().unwrap_or("abort")),
                            subject,
                            detail: format!("process aborted: {reason}"),
                            replay: replay.unwrap_or(Value::Null),
                        });
                        from = o.next;
                        if from >= units {
                            break;
                        }
                        if crashes > 5000 {
                            harness_error("more than 5000 worker aborts");
                        }
                    }
                }
            }
            acc.add("worker_aborts", crashes);
            (acc, viols)
        }));
    }
    let mut acc = Acc::default();
    let mut viols = Vec::new();
    for h in handles {
        let (a, v) = h.join().unwrap();
        acc.merge(&a);
        viols.extend(v);
    }
    CheckResult {
        acc,
        viols,
        wall_s: t0.elapsed().as_secs_f64(),
    }
}

pub struct Known {
    pub oracle: String,
    pub class: String,
    pub subject: String,
    pub what: String,
}

pub fn load_known(prop: &str) -> Vec<Known> {
    let path = format!("{}/known_findings.json", verif_root());
    let Ok(s) = std::fs::read_to_string(&path) else { return Vec::new() };
    let v: Value = serde_json::from_str(&s).unwrap_or_else(|e| harness_error(&format!("known_findings.json: {e}")));
    let mut out = Vec::new();
    for k in v["known"].as_array().cloned().unwrap_or_default() {
        if k["property"].as_str() == Some(prop) {
            out.push(Known {
                oracle: k["oracle"].as_str().unwrap_or("").into(),
                class: k["class"].as_str().unwrap_or("").into(),
                subject: k["subject"].as_str().unwrap_or("").into(),
                what: k["what"].as_str().unwrap_or("").into(),
            });
        }
    }
    out
}

/// Replays `file` in a fresh process. Returns (reproduced, output).
pub fn replay_fresh(file: &str) -> (bool, String) {
    let out = Command::new(self_exe())
        .args(["replay", file])
        .output()
        .unwrap_or_else(|e| harness_error(&format!("spawn replay: {e}")));
    let so = String::from_utf8_lossy(&out.stdout).to_string();
    (out.status.code() == Some(1) && so.contains("REPRODUCED"), so)
}

/// Full check: run, dedup, confirm by fresh-process replay, match known findings, write evidence, exit.
pub fn check_main(check: &mut dyn CheckImpl, tier: Tier) -> ! {
    let seed: u64 = std::env::var("VERIF_SEED").ok().and_then(|s| s.parse().ok()).unwrap_or(DEFAULT_SEED);
    let workers: u64 = std::env::var("VERIF_WORKERS").ok().and_then(|s| s.parse().ok()).unwrap_or(16);
    let prop = check.id();
    println!("check {prop} tier={} seed={seed} workers={workers} units={}", tier.name(), check.units(tier, seed));
    let mut res = run_units(check, tier, seed, workers);
    let (sec_viols, sec_evidence) = check.secondary(tier, seed);
    res.viols.extend(sec_viols);

    // determinism self-check: re-run the first units in one fresh process (different worker count,
    // different process) and compare the per-unit event-log hashes. A difference is a harness error.
    let det_units = check.units(tier, seed).min(std::env::var("VERIF_DET_UNITS").ok().and_then(|s| s.parse().ok()).unwrap_or(32));
    let mut det_checked = 0u64;
    let mut det_mismatch: Option<String> = None;
    let mut first_mismatch: Option<(u64, u64, u64)> = None; // (unit, hash in the re-run, hash in the main run)
    // several segments of consecutive units, each in a process of its own (4 in the quick tier, 16 in the thorough one)
    let segments: u64 = if std::env::var("VERIF_DET_UNITS").is_ok() {
        1
    } else {
        match tier {
            Tier::Quick => 4,
            Tier::Thorough => 16,
        }
    };
    let total_units = check.units(tier, seed);
    let mut rerun_hashes: BTreeMap<u64, u64> = BTreeMap::new();
    if det_units > 0 {
        let dir = format!("{}/target/run/{}", verif_root(), prop);
        let handles: Vec<_> = (0..segments)
            .filter(|k| k * det_units < total_units)
            .map(|k| {
                let (prop, dir) = (prop.to_string(), dir.clone());
                let (a, b) = (k * det_units, ((k + 1) * det_units).min(total_units));
                std::thread::spawn(move || run_worker(&prop, tier, seed, a, b, 1, &format!("{dir}/crash-det-{k}.json"), 900).acc.unit_hashes)
            })
            .collect();
        for h in handles {
            rerun_hashes.extend(h.join().unwrap());
        }
    }
    {
        for (u, h) in &rerun_hashes {
            match res.acc.unit_hashes.get(u) {
                Some(h2) if h2 == h => det_checked += 1,
                Some(h2) => {
                    det_mismatch.get_or_insert(format!(
                        "nondeterminism: unit {u} of {prop} hashed {h:016x} in the re-run and {h2:016x} in the main run"
                    ));
                    if first_mismatch.is_none_or(|m| *u < m.0) {
                        first_mismatch = Some((*u, *h, *h2));
                    }
                }
                None => {}
            }
        }
    }

    // HISTORY oracle: a unit whose result differs between two processes although it is reproducible when it runs
    // alone depends on what the process did before it (a cache, a static, a thread_local keyed too coarsely in the
    // code under test). The history is replayed in a fresh process and shrunk.
    if let Some((u, h_rerun, h_main)) = first_mismatch {
        let alone = unit_hash_after(prop, tier, seed, &[u], u);
        if alone.is_some() && alone == unit_hash_after(prop, tier, seed, &[u], u) {
            let alone = alone.unwrap();
            let w = workers.min(check.units(tier, seed).max(1));
            let hist: Option<Vec<u64>> = if h_rerun != alone {
                Some((u / det_units.max(1) * det_units.max(1)..u).collect())
            } else if h_main != alone {
                Some((u % w..u).step_by(w as usize).collect())
            } else {
                None
            };
            if let Some(mut hist) = hist {
                let differs = |h: &[u64]| -> bool {
                    let mut l = h.to_vec();
                    l.push(u);
                    unit_hash_after(prop, tier, seed, &l, u).is_some_and(|x| x != alone)
                };
                if differs(&hist) {
                    // ddmin over the predecessors, bounded
                    let mut chunk = hist.len().div_ceil(2).max(1);
                    let mut trials = 0;
                    while chunk >= 1 && hist.len() > 1 && trials < 48 {
                        let mut shrunk = false;
                        let mut i = 0;
                        while i < hist.len() && trials < 48 {
                            let mut cand = hist.clone();
                            cand.drain(i..(i + chunk).min(cand.len()));
                            trials += 1;
                            if !cand.is_empty() && differs(&cand) {
                                hist = cand;
                                shrunk = true;
                            } else {
                                i += chunk;
                            }
                        }
                        if !shrunk {
                            if chunk == 1 {
                                break;
                            }
                            chunk = chunk.div_ceil(2);
                        }
                    }
                    let mut units = hist.clone();
                    units.push(u);
                    res.viols.push(Viol {
                        unit: u,
                        oracle: "HISTORY".into(),
                        class: "result_depends_on_process_history".into(),
                        subject: "process_state".into(),
                        detail: format!(
                            "unit {u} gives other results (event-log hash) after units {hist:?} ran in the same process than in a process of its own: state kept by the code under test between calls leaks into later results"
                        ),
                        replay: json!({"engine": "history", "tier": tier.name(), "units": units}),
                    });
                    det_mismatch = None;
                }
            }
        }
    }

    // dedup: lowest unit per key
    let mut by_key: BTreeMap<(String, String, String), (Viol, u64)> = BTreeMap::new();
    for v in res.viols {
        let k = v.key();
        match by_key.get_mut(&k) {
            Some((cur, n)) => {
                *n += 1;
                if v.unit < cur.unit {
                    *cur = v;
                }
            }
            None => {
                by_key.insert(k, (v, 1));
            }
        }
    }
    let known = load_known(prop);
    let rdir = format!("{}/replays", verif_root());
    let _ = std::fs::create_dir_all(&rdir);
    let mut n_viol = 0u64;
    let mut n_known = 0u64;
    let mut known_hit: BTreeSet<usize> = BTreeSet::new();
    let mut lines: Vec<String> = Vec::new();
    let mut viol_summaries: Vec<Value> = Vec::new();
    for ((oracle, class, subject), (v, count)) in &by_key {
        let j = v.to_json(prop, seed);
        let text = serde_json::to_string_pretty(&j).unwrap();
        let name = format!("{prop}-{oracle}-{:016x}.json", crate::util::fnv(format!("{oracle}|{class}|{subject}").as_bytes()));
        let path = format!("{rdir}/{name}");
        std::fs::write(&path, &text).unwrap_or_else(|e| harness_error(&format!("write replay: {e}")));
        let (mut ok, mut out) = replay_fresh(&path);
        if !ok && (oracle == "CANON" || subject == "CircuitBootstrappingKey" || subject == "BDDKey") {
            // hash-map iteration order is seeded per process by std and is not under the simulator's
            // control (DESIGN 1.): a writer that leaks it shows in most but not all processes, and not
            // always through the same oracle. Accept any violation of the replayed history, within 12 tries.
            for _ in 0..12 {
                if out.contains("DIFFERENT-VIOLATION") {
                    ok = true;
                    break;
                }
                (ok, out) = replay_fresh(&path);
                if ok {
                    break;
                }
            }
        }
        let mut history_note = String::new();
        if !ok {
            // The case alone is clean in a fresh process. If it fails again after the units its worker had run before it,
            // the code under test keeps state between calls (a thread_local staging buffer, a static cache): the history
            // is shrunk and becomes the replay.
            let w = workers.min(check.units(tier, seed).max(1));
            let mut hist: Vec<u64> = (v.unit % w..v.unit).step_by(w as usize).collect();
            let key = v.key();
            let with = |h: &[u64]| -> bool {
                let mut l = h.to_vec();
                l.push(v.unit);
                viol_after(prop, tier, seed, &l, v.unit, &key)
            };
            if !hist.is_empty() && with(&hist) {
                let mut chunk = hist.len().div_ceil(2).max(1);
                let mut trials = 0;
                while hist.len() > 1 && trials < 40 {
                    let mut shrunk = false;
                    let mut i = 0;
                    while i < hist.len() && trials < 40 {
                        let mut cand = hist.clone();
                        cand.drain(i..(i + chunk).min(cand.len()));
                        trials += 1;
                        if !cand.is_empty() && with(&cand) {
                            hist = cand;
                            shrunk = true;
                        } else {
                            i += chunk;
                        }
                    }
                    if !shrunk {
                        if chunk == 1 {
                            break;
                        }
                        chunk = chunk.div_ceil(2);
                    }
                }
                let mut units = hist.clone();
                units.push(v.unit);
                let mut j2 = j.clone();
                j2["single_case_replay"] = j["replay"].clone();
                j2["replay"] = json!({"engine": "history_viol", "tier": tier.name(), "units": units, "key": [oracle, class, subject]});
                std::fs::write(&path, serde_json::to_string_pretty(&j2).unwrap()).unwrap_or_else(|e| harness_error(&format!("write replay: {e}")));
                history_note = format!(
                    " [only after units {hist:?} ran in the same process - alone in a fresh process the case is clean: the code under test keeps state between calls]"
                );
                ok = true;
            }
        }
        if !ok {
            harness_error(&format!(
                "violation {oracle}/{class}/{subject} did not reproduce from {path} in a fresh process:\n{out}"
            ));
        }
        let ki = known.iter().position(|k| {
            k.oracle == *oracle && (k.class == *class || k.class == "*") && (k.subject == *subject || k.subject == "*")
        });
        match ki {
            Some(i) => {
                n_known += 1;
                if known_hit.insert(i) {
                    lines.push(format!("KNOWN-FINDING: property={prop} {}", known[i].what));
                }
                let _ = std::fs::remove_file(&path);
            }
            None => {
                n_viol += 1;
                lines.push(format!("VIOLATION property={prop} replay={path}"));
                lines.push(format!("  oracle={oracle} class={class} subject={subject} occurrences={count}: {}{history_note}", v.detail));
            }
        }
        viol_summaries.push(json!({"oracle": oracle, "class": class, "subject": subject, "occurrences": count, "known": ki.is_some()}));
    }

    // A run that differs between two processes with no violation to explain it is a harness error
    // (when the code under test itself behaves differently from process to process - e.g. hash-map
    // iteration order leaking into a blob - the oracles report it and the violation stands).
    if n_viol == 0
        && let Some(m) = det_mismatch
    {
        harness_error(&m);
    }

    // evidence
    let d = check.describe(tier, &res.acc);
    let distinct: u64 = d["distinct_nontrivial"].as_u64().unwrap_or(0);
    let mut coverage = json!({
        "evaluations": res.acc.evaluations,
        "distinct_nontrivial": distinct,
        "rule": d["rule"],
        "samples": res.acc.samples,
        "units": res.acc.units_done,
        "counters": res.acc.counters,
        "set_sizes": res.acc.sets.iter().map(|(k, s)| (k.clone(), s.len())).collect::<BTreeMap<_,_>>(),
        "event_log_hash": format!("{:016x}", res.acc.log_hash),
        "runs_per_hour": (res.acc.evaluations as f64 / res.wall_s.max(0.001) * 3600.0) as u64,
        "violations_detail": viol_summaries,
        "known_findings_matched": n_known,
        "determinism_selfcheck_units_rerun_in_fresh_process": det_checked,
    });
    if !sec_evidence.is_null() {
        coverage["secondary_engine"] = sec_evidence;
    }
    if let Some(extra) = d["extra"].as_object() {
        for (k, v) in extra {
            coverage[k] = v.clone();
        }
    }
    let ev = json!({
        "property_id": prop,
        "tier": tier.name(),
        "seed": seed,
        "level": check.level(),
        "coverage": coverage,
        "assumptions": d["assumptions"],
        "wall_s": res.wall_s,
        "violations": n_viol,
    });
    let edir = format!("{}/evidence", verif_root());
    let _ = std::fs::create_dir_all(&edir);
    std::fs::write(format!("{edir}/{prop}.json"), serde_json::to_string_pretty(&ev).unwrap())
        .unwrap_or_else(|e| harness_error(&format!("write evidence: {e}")));

    for l in &lines {
        println!("{l}");
    }
    println!(
        "{prop}: units={} evaluations={} distinct={} violations={} known_findings={} wall={:.1}s log_hash={:016x}",
        res.acc.units_done, res.acc.evaluations, distinct, n_viol, n_known, res.wall_s, res.acc.log_hash
    );
    std::process::exit(if n_viol > 0 { 1 } else { 0 });
}

pub fn replay_main(checks: &mut [Box<dyn CheckImpl>], file: &str) -> ! {
    let s = std::fs::read_to_string(file).unwrap_or_else(|e| harness_error(&format!("read {file}: {e}")));
    let v: Value = serde_json::from_str(&s).unwrap_or_else(|e| harness_error(&format!("parse {file}: {e}")));
    let prop = v["property"].as_str().unwrap_or("");
    let Some(c) = checks.iter_mut().find(|c| c.id() == prop) else {
        harness_error(&format!("no check for property {prop}"));
    };
    if v["replay"]["engine"].as_str() == Some("history") {
        let seed = v["seed"].as_u64().unwrap_or(DEFAULT_SEED);
        let tier = Tier::parse(v["replay"]["tier"].as_str().unwrap_or("quick"));
        let units: Vec<u64> = v["replay"]["units"].as_array().map(|a| a.iter().filter_map(|x| x.as_u64()).collect()).unwrap_or_default();
        let Some(&u) = units.last() else { harness_error("history replay without units") };
        let alone = unit_hash_after(prop, tier, seed, &[u], u);
        let after = unit_hash_after(prop, tier, seed, &units, u);
        if alone.is_some() && after.is_some() && alone != after {
            println!(
                "REPRODUCED oracle=HISTORY class=result_depends_on_process_history: unit {u} hashes {:016x} alone and {:016x} after units {:?}",
                alone.unwrap(),
                after.unwrap(),
                &units[..units.len() - 1]
            );
            std::process::exit(1);
        }
        println!("NOT-REPRODUCED: unit {u} hashes the same alone and after its recorded history");
        std::process::exit(0);
    }
    if v["replay"]["engine"].as_str() == Some("history_viol") {
        let seed = v["seed"].as_u64().unwrap_or(DEFAULT_SEED);
        let tier = Tier::parse(v["replay"]["tier"].as_str().unwrap_or("quick"));
        let units: Vec<u64> = v["replay"]["units"].as_array().map(|a| a.iter().filter_map(|x| x.as_u64()).collect()).unwrap_or_default();
        let Some(&u) = units.last() else { harness_error("history replay without units") };
        let k = &v["replay"]["key"];
        let key = (
            k[0].as_str().unwrap_or("").to_string(),
            k[1].as_str().unwrap_or("").to_string(),
            k[2].as_str().unwrap_or("").to_string(),
        );
        if viol_after(prop, tier, seed, &units, u, &key) {
            println!("REPRODUCED oracle={} class={}: at unit {u} after units {:?} in one process", key.0, key.1, &units[..units.len() - 1]);
            std::process::exit(1);
        }
        println!("NOT-REPRODUCED: unit {u} shows no such violation after its recorded history");
        std::process::exit(0);
    }
    alloc::CAP.store(if prop == "C18" { 64 << 20 } else { 1 << 30 }, Ordering::SeqCst);
    crate::util::install_quiet_panic_hook();
    // crash attribution for aborting replays
    let crashfile = format!("{}/target/run/replay-crash-{}.json", verif_root(), std::process::id());
    let _ = std::fs::create_dir_all(format!("{}/target/run", verif_root()));
    let want_abort = v["class"].as_str().is_some_and(|c| c.starts_with("abort:"));
    if want_abort {
        // run the replay in a child so the abort can be observed
        if std::env::var("POULPY_SIM_REPLAY_CHILD").is_err() {
            let st = Command::new(self_exe())
                .args(["replay", file])
                .env("POULPY_SIM_REPLAY_CHILD", "1")
                .stdout(Stdio::null())
                .stderr(Stdio::piped())
                .output()
                .unwrap_or_else(|e| harness_error(&format!("spawn: {e}")));
            let err = String::from_utf8_lossy(&st.stderr);
            if !st.status.success() && st.status.code().is_none() && err.contains("SIM-ALLOC-REFUSED") {
                println!("REPRODUCED oracle=NOPANIC class={} (process aborted: {})", v["class"].as_str().unwrap(), err.trim());
                std::process::exit(1);
            }
            println!("NOT-REPRODUCED (child status {:?})", st.status);
            std::process::exit(0);
        }
        crash_open(&crashfile);
    }
    let r = c.replay(&v["replay"]);
    let _ = std::fs::remove_file(&crashfile);
    match r {
        Some((oracle, class, detail)) => {
            let same = v["oracle"].as_str() == Some(&oracle) && v["class"].as_str() == Some(&class);
            if same || v["oracle"].is_null() {
                println!("REPRODUCED oracle={oracle} class={class}: {detail}");
                std::process::exit(1);
            }
            println!("DIFFERENT-VIOLATION oracle={oracle} class={class}: {detail}");
            std::process::exit(1);
        }
        None => {
            println!("NOT-REPRODUCED: the replay ran without violating any oracle");
            std::process::exit(0);
        }
    }
}
