//! Small helpers: hashing, hex, panic capture.
use std::cell::RefCell;
use std::panic::{self, AssertUnwindSafe};

pub fn fnv(data: &[u8]) -> u64 {
    let mut h: u64 = 0xcbf29ce484222325;
    for b in data {
        h ^= *b as u64;
        h = h.wrapping_mul(0x100000001b3);
    }
    h
}

pub fn fnv_mix(h: u64, v: u64) -> u64 {
    let mut h = h;
    for b in v.to_le_bytes() {
        h ^= b as u64;
        h = h.wrapping_mul(0x100000001b3);
    }
    h
}

pub fn hex(data: &[u8]) -> String {
    let mut s = String::with_capacity(data.len() * 2);
    for b in data {
        s.push_str(&format!("{b:02x}"));
    }
    s
}

pub fn unhex(s: &str) -> Vec<u8> {
    (0..s.len() / 2).map(|i| u8::from_str_radix(&s[2 * i..2 * i + 2], 16).unwrap()).collect()
}

thread_local! {
    static LAST_PANIC: RefCell<Option<String>> = const { RefCell::new(None) };
}

/// Installs a panic hook that records message + location in a thread local and prints nothing.
pub fn install_quiet_panic_hook() {
    panic::set_hook(Box::new(|info| {
        let msg = if let Some(s) = info.payload().downcast_ref::<&str>() {
            (*s).to_string()
        } else if let Some(s) = info.payload().downcast_ref::<String>() {
            s.clone()
        } else {
            "<non-string panic>".to_string()
        };
        let loc = info.location().map(|l| format!("{}:{}", l.file(), l.line())).unwrap_or_default();
        if std::env::var("POULPY_SIM_VERBOSE_PANIC").is_ok() {
            eprintln!("panic: {msg} @ {loc}\n{}", std::backtrace::Backtrace::force_capture());
        }
        LAST_PANIC.with(|p| *p.borrow_mut() = Some(format!("{msg} @ {loc}")));
    }));
}

/// Runs `f`, turning a panic into Err(message).
pub fn catch<T>(f: impl FnOnce() -> T) -> Result<T, String> {
    LAST_PANIC.with(|p| *p.borrow_mut() = None);
    match panic::catch_unwind(AssertUnwindSafe(f)) {
        Ok(v) => Ok(v),
        Err(_) => Err(LAST_PANIC.with(|p| p.borrow_mut().take()).unwrap_or_else(|| "<panic>".into())),
    }
}

/// Strips absolute repo prefix and line numbers so that panic messages can be compared across edits.
pub fn panic_class(msg: &str) -> String {
    let m = msg.replace("/repo/", "");
    // drop digits to make the class stable across sizes
    let mut out = String::new();
    let mut last_digit = false;
    for c in m.chars() {
        if c.is_ascii_digit() {
            if !last_digit {
                out.push('#');
            }
            last_digit = true;
        } else {
            out.push(c);
            last_digit = false;
        }
    }
    out
}
