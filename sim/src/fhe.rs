//! Real-code scenarios on the four backends (FFT64Ref, NTT120Ref, FFT64Avx, NTT120Avx), shared by
//! the C20 (scheduler) and C12 (arena) checks. Written once inside a macro and instantiated per
//! backend with concrete types, so no trait-bound plumbing is needed.
use crate::prng::Rng;
use crate::sched;
use poulpy_bin_fhe::bdd_arithmetic::{GetBitCircuitInfo, Node};
use serde_json::{Value, json};

pub const BACKENDS: &[&str] = &["FFT64Ref", "NTT120Ref", "FFT64Avx", "NTT120Avx"];

/// Harness-generated BDD circuit: every output bit is a different small BDD.
pub struct SimCircuit {
    pub bits: Vec<(Vec<Node>, usize)>,
    pub inputs: usize,
}

impl GetBitCircuitInfo for SimCircuit {
    fn input_size(&self) -> usize {
        self.inputs
    }
    fn output_size(&self) -> usize {
        self.bits.len()
    }
    fn get_circuit(&self, bit: usize) -> (&[Node], usize) {
        (&self.bits[bit].0, self.bits[bit].1)
    }
}

impl SimCircuit {
    pub fn generate(seed: u64, outputs: usize, inputs: usize) -> SimCircuit {
        let mut rng = Rng::new(seed);
        let mut bits = Vec::new();
        for o in 0..outputs {
            // some outputs are constant zero (state_size = 0)
            if rng.chance(120) && o > 0 {
                bits.push((Vec::new(), 0));
                continue;
            }
            let state = rng.range(2, 4) as usize;
            let levels = rng.range(1, 4) as usize;
            let mut nodes = Vec::new();
            for lvl in 0..levels {
                let last = lvl + 1 == levels;
                for j in 0..state {
                    if last {
                        if j == 0 {
                            nodes.push(Node::Cmux(
                                rng.below(inputs as u64) as usize,
                                rng.below(state as u64) as usize,
                                rng.below(state as u64) as usize,
                            ));
                        } else {
                            nodes.push(Node::None);
                        }
                    } else {
                        let c = rng.below(10);
                        if c < 7 {
                            // first level: hi/lo among the constants 0/1 mostly
                            let (hi, lo) = if lvl == 0 {
                                (rng.below(2) as usize, rng.below(2) as usize)
                            } else {
                                (rng.below(state as u64) as usize, rng.below(state as u64) as usize)
                            };
                            nodes.push(Node::Cmux(rng.below(inputs as u64) as usize, hi, lo));
                        } else if c < 9 {
                            nodes.push(Node::Copy);
                        } else {
                            nodes.push(Node::None);
                        }
                    }
                }
            }
            bits.push((nodes, state));
        }
        SimCircuit { bits, inputs }
    }
}

#[derive(Clone, Debug, PartialEq)]
pub enum WindowMode {
    /// exactly the declared size, 64-aligned start
    Exact,
    /// `available()` equals the declared size, start at 64k + misalign
    ExactMisaligned(usize),
    /// declared size rounded up per thread plus slack
    Generous,
    /// declared size minus `n` bytes: must fail (sensitivity self-test of the oracle)
    Short(usize),
    /// declared size plus `n` bytes: a larger scratch must serve as well (MAX clause)
    Slack(usize),
    /// like Exact / Generous, but the call is made twice in a row on the same window (C12 inventory ops
    /// only): what the first call leaves in the scratch, in the destination and in prepared objects must
    /// not matter to the second
    ExactTwice,
    GenerousTwice,
}

#[derive(Clone, Debug)]
pub struct Window {
    pub mode: WindowMode,
    /// 0 = zero fill, otherwise PRNG poison
    pub fill_seed: u64,
}

impl Window {
    pub fn to_json(&self) -> Value {
        let (m, a) = match &self.mode {
            WindowMode::Exact => ("exact", 0),
            WindowMode::ExactMisaligned(k) => ("exact_misaligned", *k),
            WindowMode::Generous => ("generous", 0),
            WindowMode::Short(k) => ("short", *k),
            WindowMode::Slack(k) => ("slack", *k),
            WindowMode::ExactTwice => ("exact_twice", 0),
            WindowMode::GenerousTwice => ("generous_twice", 0),
        };
        json!({"mode": m, "arg": a, "fill_seed": self.fill_seed})
    }
    pub fn from_json(v: &Value) -> Window {
        let a = v["arg"].as_u64().unwrap_or(0) as usize;
        Window {
            mode: match v["mode"].as_str().unwrap() {
                "exact" => WindowMode::Exact,
                "exact_misaligned" => WindowMode::ExactMisaligned(a),
                "generous" => WindowMode::Generous,
                "slack" => WindowMode::Slack(a),
                "exact_twice" => WindowMode::ExactTwice,
                "generous_twice" => WindowMode::GenerousTwice,
                _ => WindowMode::Short(a),
            },
            fill_seed: v["fill_seed"].as_u64().unwrap_or(0),
        }
    }
}

const GUARD: usize = 4096;
const CANARY: u8 = 0xC5;

/// A canary-guarded allocation holding a scratch window chosen by the simulator.
pub struct Arena {
    buf: Vec<u8>,
    pub start: usize,
    pub len: usize,
}

impl Arena {
    /// `declared`: the op's own tmp_bytes answer; `generous`: size used in Generous mode.
    pub fn new(w: &Window, declared: usize, generous: usize) -> Arena {
        let (mis, len) = match &w.mode {
            WindowMode::Exact | WindowMode::ExactTwice => (0, declared),
            WindowMode::GenerousTwice => (0, generous),
            WindowMode::ExactMisaligned(k) => (*k, declared + (64 - *k % 64) % 64),
            WindowMode::Generous => (0, generous),
            WindowMode::Short(k) => (0, declared.saturating_sub(*k)),
            WindowMode::Slack(k) => (0, declared + *k),
        };
        let total = GUARD + mis + len + GUARD + 64;
        let mut buf: Vec<u8> = poulpy_hal::alloc_aligned::<u8>(total);
        buf.fill(CANARY);
        let start = GUARD + mis;
        if w.fill_seed == 0 {
            buf[start..start + len].fill(0);
        } else {
            let mut r = Rng::new(w.fill_seed);
            r.fill(&mut buf[start..start + len]);
        }
        Arena { buf, start, len }
    }
    pub fn window(&mut self) -> &mut [u8] {
        let (s, l) = (self.start, self.len);
        &mut self.buf[s..s + l]
    }
    pub fn range(&self) -> (usize, usize) {
        (self.buf.as_ptr() as usize + self.start, self.len)
    }
    pub fn canaries_intact(&self) -> bool {
        self.buf[..self.start].iter().all(|b| *b == CANARY) && self.buf[self.start + self.len..].iter().all(|b| *b == CANARY)
    }
}

#[derive(Clone, Debug)]
pub struct EvalSpec {
    pub n: u32,
    pub rank: u32,
    pub circuit_seed: u64,
    pub outputs: usize,
    pub out_extra: usize,
    pub threads: usize,
    pub out_poison: u64,
}

impl EvalSpec {
    pub fn to_json(&self) -> Value {
        json!({"n": self.n, "rank": self.rank, "circuit_seed": self.circuit_seed, "outputs": self.outputs,
               "out_extra": self.out_extra, "threads": self.threads, "out_poison": self.out_poison})
    }
    pub fn from_json(v: &Value) -> EvalSpec {
        let u = |k: &str| v[k].as_u64().unwrap();
        EvalSpec {
            n: u("n") as u32,
            rank: u("rank") as u32,
            circuit_seed: u("circuit_seed"),
            outputs: u("outputs") as usize,
            out_extra: u("out_extra") as usize,
            threads: u("threads") as usize,
            out_poison: u("out_poison"),
        }
    }
}

#[derive(Clone, Debug)]
pub struct PrepSpec {
    pub n: u32,
    pub rank: u32,
    pub word_bits: u32, // 8 or 16
    pub bit_start: usize,
    pub bit_count: usize,
    pub threads: usize,
    /// true: through the `FheUintPrepared::prepare_custom{,_multi_thread}` wrappers instead of the module-level trait
    pub via_struct: bool,
}

impl PrepSpec {
    pub fn to_json(&self) -> Value {
        json!({"n": self.n, "rank": self.rank, "word_bits": self.word_bits, "bit_start": self.bit_start, "bit_count": self.bit_count, "threads": self.threads, "via_struct": self.via_struct})
    }
    pub fn from_json(v: &Value) -> PrepSpec {
        let u = |k: &str| v[k].as_u64().unwrap();
        PrepSpec {
            n: u("n") as u32,
            rank: v["rank"].as_u64().unwrap_or(1) as u32,
            word_bits: u("word_bits") as u32,
            bit_start: u("bit_start") as usize,
            bit_count: u("bit_count") as usize,
            threads: u("threads") as usize,
            via_struct: v["via_struct"].as_bool().unwrap_or(false),
        }
    }
}

/// Encrypted 32-bit word operation through the two-word / one-word wrappers (bdd_2w_to_1w, bdd_1w_to_1w).
#[derive(Clone, Debug)]
pub struct WordSpec {
    pub n: u32,
    pub op: String,
    pub threads: usize,
    pub a: u32,
    pub b: u32,
}

impl WordSpec {
    pub fn to_json(&self) -> Value {
        json!({"n": self.n, "op": self.op, "threads": self.threads, "a": self.a, "b": self.b})
    }
    pub fn from_json(v: &Value) -> WordSpec {
        WordSpec {
            n: v["n"].as_u64().unwrap() as u32,
            op: v["op"].as_str().unwrap().to_string(),
            threads: v["threads"].as_u64().unwrap() as usize,
            a: v["a"].as_u64().unwrap() as u32,
            b: v["b"].as_u64().unwrap() as u32,
        }
    }
}

pub const WORD_OPS: &[&str] = &["add", "sub", "and", "or", "xor", "sll", "srl", "sra", "slt", "sltu", "identity"];

#[derive(Clone, Debug)]
pub struct SharedSpec {
    pub n: u32,
    pub threads: usize,
    pub ops_seed: u64,
    pub ops_per_thread: usize,
    pub with_prepare: bool,
    /// the threads share a Module created for this scenario that nothing has used yet (lazily
    /// initialised state inside a handle would otherwise be warm from earlier runs)
    pub fresh_module: bool,
}

impl SharedSpec {
    pub fn to_json(&self) -> Value {
        json!({"n": self.n, "threads": self.threads, "ops_seed": self.ops_seed, "ops_per_thread": self.ops_per_thread, "with_prepare": self.with_prepare, "fresh_module": self.fresh_module})
    }
    pub fn from_json(v: &Value) -> SharedSpec {
        let u = |k: &str| v[k].as_u64().unwrap();
        SharedSpec {
            n: u("n") as u32,
            threads: u("threads") as usize,
            ops_seed: u("ops_seed"),
            ops_per_thread: u("ops_per_thread") as usize,
            with_prepare: v["with_prepare"].as_bool().unwrap_or(false),
            fresh_module: v["fresh_module"].as_bool().unwrap_or(false),
        }
    }
}

#[derive(Clone, Debug, Default)]
pub struct RunOut {
    /// output bytes, one entry per output object
    pub outs: Vec<Vec<u8>>,
    pub declared: usize,
    pub per_thread: usize,
    pub window_len: usize,
    pub canary_ok: bool,
    pub inputs_unchanged: bool,
    pub module_fingerprint_same: bool,
    pub items: usize,
}

pub type RunResult = (Result<RunOut, String>, Option<sched::Report>);

pub trait BackendOps: Sync {
    fn name(&self) -> &'static str;
    fn eval(&self, spec: &EvalSpec, w: &Window, cfg: Option<sched::Config>) -> RunResult;
    fn prep(&self, spec: &PrepSpec, w: &Window, cfg: Option<sched::Config>) -> RunResult;
    /// Mixed workload of `threads` harness threads on one shared Module / keys / ciphertexts.
    /// With `cfg = None` the per-thread op lists run one after the other on the calling thread.
    fn shared(&self, spec: &SharedSpec, cfg: Option<sched::Config>) -> RunResult;
    /// Word-level wrappers: `<op>_multi_thread(threads, ..)` (threads = 1 uses the single-threaded entry point).
    fn word(&self, spec: &WordSpec, w: &Window, cfg: Option<sched::Config>) -> RunResult;
    /// SHARED with plain std threads and no scheduler (engine B / Miri).
    fn shared_unsync(&self, spec: &SharedSpec) -> Result<RunOut, String>;
    /// structural hash of the Module the C12 inventory shares for ring degree `n` (see `module_struct_hash`)
    fn module_state(&self, n: u32) -> u64;
    /// C12 inventory of single-call ops (see c12/ops.rs)
    fn core_op(&self, op: &str, shape: &crate::c12::ops::Shape, w: &Window) -> RunResult;
    fn core_ops(&self) -> &'static [&'static str];
}

pub fn backend(name: &str) -> &'static dyn BackendOps {
    match name {
        "FFT64Ref" => &fft64_ref::B,
        "NTT120Ref" => &ntt120_ref::B,
        "FFT64Avx" => &fft64_avx::B,
        "NTT120Avx" => &ntt120_avx::B,
        _ => panic!("unknown backend {name}"),
    }
}

macro_rules! backend_impl {
    ($modname:ident, $be:ty, $name:expr) => {
        pub mod $modname {
            use super::*;
            use poulpy_bin_fhe::bdd_arithmetic::{
                BDDEncryptionInfos, BDDKey, BDDKeyLayout, BDDKeyPrepared, ExecuteBDDCircuit, FheUint, FheUintPrepare,
                FheUintPrepared, GetGGSWBit,
            };
            use poulpy_bin_fhe::blind_rotation::{BlindRotationKeyLayout, CGGI};
            use poulpy_bin_fhe::circuit_bootstrapping::CircuitBootstrappingKeyLayout;
            use poulpy_core::EncryptionLayout;
            use poulpy_core::layouts::{
                Base2K, Degree, Dnum, Dsize, GGLWEToGGSWKeyLayout, GGSWLayout, GLWE, GLWEAutomorphismKeyLayout, GLWELayout,
                GLWESecret, GLWESecretPrepared, GLWESecretPreparedFactory, GLWEToLWEKeyLayout, LWESecret, Rank, TorusPrecision,
            };
            use poulpy_hal::api::{ModuleNew, ScratchFromBytes, ScratchOwnedAlloc, ScratchOwnedBorrow};
            use poulpy_hal::layouts::{DataView, DeviceBuf, Module, Scratch, ScratchOwned};
            use poulpy_hal::source::Source;
            use std::sync::Mutex;

            type BE = $be;

            pub struct Ctx {
                pub n: u32,
                pub rank: u32,
                pub module: Module<BE>,
                pub sk_prep: GLWESecretPrepared<DeviceBuf<BE>, BE>,
                pub sk_glwe: GLWESecret<Vec<u8>>,
                pub inputs: FheUintPrepared<DeviceBuf<BE>, u8, BE>,
                pub ct_a: GLWE<Vec<u8>>,
                pub ct_b: GLWE<Vec<u8>>,
                pub shared_ksk: poulpy_core::layouts::prepared::GLWESwitchingKeyPrepared<DeviceBuf<BE>, BE>,
                pub shared_atk: poulpy_core::layouts::prepared::GLWEAutomorphismKeyPrepared<DeviceBuf<BE>, BE>,
                pub glwe_infos: GLWELayout,
                pub ggsw_infos: GGSWLayout,
                pub bdd: Mutex<Option<&'static BddCtx>>,
            }

            pub struct BddCtx {
                pub layout: BDDKeyLayout,
                pub key: BDDKeyPrepared<DeviceBuf<BE>, CGGI, BE>,
                pub word8: FheUint<Vec<u8>, u8>,
                pub word16: FheUint<Vec<u8>, u16>,
                pub word32: FheUint<Vec<u8>, u32>,
                pub block_size: usize,
            }

            unsafe impl Sync for Ctx {}
            unsafe impl Send for Ctx {}
            unsafe impl Sync for BddCtx {}
            unsafe impl Send for BddCtx {}

            static CTXS: Mutex<Vec<&'static Ctx>> = Mutex::new(Vec::new());

            pub fn ctx(n: u32, rank: u32) -> &'static Ctx {
                let mut g = CTXS.lock().unwrap_or_else(|e| e.into_inner());
                if let Some(c) = g.iter().find(|c| c.n == n && c.rank == rank) {
                    return c;
                }
                let module: Module<BE> = Module::<BE>::new(n as u64);
                let mut source_xs = Source::new([1u8; 32]);
                let mut source_xa = Source::new([2u8; 32]);
                let mut source_xe = Source::new([3u8; 32]);
                let mut scratch: ScratchOwned<BE> = ScratchOwned::alloc(1 << 20);
                let mut sk_glwe: GLWESecret<Vec<u8>> = GLWESecret::alloc(Degree(n), Rank(rank));
                sk_glwe.fill_ternary_prob(0.5, &mut source_xs);
                let mut sk_prep: GLWESecretPrepared<DeviceBuf<BE>, BE> = module.glwe_secret_prepared_alloc(Rank(rank));
                module.glwe_secret_prepare(&mut sk_prep, &sk_glwe);
                let glwe_infos = GLWELayout {
                    n: Degree(n),
                    base2k: Base2K(13),
                    k: TorusPrecision(26),
                    rank: Rank(rank),
                };
                let ggsw_infos = GGSWLayout {
                    n: Degree(n),
                    base2k: Base2K(13),
                    k: TorusPrecision(39),
                    rank: Rank(rank),
                    dnum: Dnum(2),
                    dsize: Dsize(1),
                };
                // Encrypted bytes and prepared evaluation keys need a ring of at least 8 coefficients (FFT64 vmp asserts
                // n >= 8). For the tiny rings (N = 4, whose limbs are not multiples of the 64-byte scratch alignment) these
                // shared objects live in a ring of degree 8 of their own: the ops that would combine them with this
                // context's module reject the shape, the vmp-free ops (LWE, plain vector ops) run at N = 4.
                let an: u32 = n.max(8);
                let aux_module: Option<Module<BE>> = if n < 8 { Some(Module::<BE>::new(8)) } else { None };
                let am: &Module<BE> = aux_module.as_ref().unwrap_or(&module);
                let aux_sk: Option<(GLWESecret<Vec<u8>>, GLWESecretPrepared<DeviceBuf<BE>, BE>)> = if n < 8 {
                    let mut sk8: GLWESecret<Vec<u8>> = GLWESecret::alloc(Degree(8), Rank(rank));
                    sk8.fill_ternary_prob(0.5, &mut source_xs);
                    let mut sk8_prep: GLWESecretPrepared<DeviceBuf<BE>, BE> = am.glwe_secret_prepared_alloc(Rank(rank));
                    am.glwe_secret_prepare(&mut sk8_prep, &sk8);
                    Some((sk8, sk8_prep))
                } else {
                    None
                };
                let (ask, ask_prep) = match &aux_sk {
                    Some((a, b)) => (a, b),
                    None => (&sk_glwe, &sk_prep),
                };
                let mut ainfos = ggsw_infos;
                ainfos.n = Degree(an);
                let mut inputs: FheUintPrepared<DeviceBuf<BE>, u8, BE> = FheUintPrepared::alloc_from_infos(am, &ainfos);
                let enc = EncryptionLayout::new_from_default_sigma(ainfos).unwrap();
                inputs.encrypt_sk(am, 0xA6u8, ask_prep, &enc, &mut source_xe, &mut source_xa, scratch.borrow());
                let genc = EncryptionLayout::new_from_default_sigma(glwe_infos).unwrap();
                let mut ct_a: GLWE<Vec<u8>> = GLWE::alloc_from_infos(&glwe_infos);
                let mut ct_b: GLWE<Vec<u8>> = GLWE::alloc_from_infos(&glwe_infos);
                {
                    use poulpy_core::GLWEEncryptSk;
                    module.glwe_encrypt_zero_sk(&mut ct_a, &sk_prep, &genc, &mut source_xe, &mut source_xa, scratch.borrow());
                    module.glwe_encrypt_zero_sk(&mut ct_b, &sk_prep, &genc, &mut source_xe, &mut source_xa, scratch.borrow());
                }
                // evaluation keys shared read-only by SHARED workloads
                let (shared_ksk, shared_atk) = {
                    use poulpy_core::layouts::{
                        GLWEAutomorphismKey, GLWEAutomorphismKeyPreparedFactory, GLWESwitchingKey, GLWESwitchingKeyLayout,
                        GLWESwitchingKeyPreparedFactory,
                    };
                    use poulpy_core::{GLWEAutomorphismKeyEncryptSk, GLWESwitchingKeyEncryptSk};
                    let ksk_infos = GLWESwitchingKeyLayout {
                        n: Degree(an),
                        base2k: Base2K(12),
                        k: TorusPrecision(38),
                        dnum: Dnum(3),
                        dsize: Dsize(1),
                        rank_in: Rank(rank),
                        rank_out: Rank(rank),
                    };
                    let mut ksk: GLWESwitchingKey<Vec<u8>> = GLWESwitchingKey::alloc_from_infos(&ksk_infos);
                    let kenc = EncryptionLayout::new_from_default_sigma(ksk_infos).unwrap();
                    am.glwe_switching_key_encrypt_sk(&mut ksk, ask, ask, &kenc, &mut source_xe, &mut source_xa, scratch.borrow());
                    let mut kp = am.glwe_switching_key_prepared_alloc_from_infos(&ksk);
                    am.glwe_switching_key_prepare(&mut kp, &ksk, scratch.borrow());
                    let atk_infos = GLWEAutomorphismKeyLayout {
                        n: Degree(an),
                        base2k: Base2K(12),
                        k: TorusPrecision(38),
                        rank: Rank(rank),
                        dnum: Dnum(3),
                        dsize: Dsize(1),
                    };
                    let mut atk: GLWEAutomorphismKey<Vec<u8>> = GLWEAutomorphismKey::alloc_from_infos(&atk_infos);
                    let aenc = EncryptionLayout::new_from_default_sigma(atk_infos).unwrap();
                    am.glwe_automorphism_key_encrypt_sk(&mut atk, 5, ask, &aenc, &mut source_xe, &mut source_xa, scratch.borrow());
                    let mut ap = am.glwe_automorphism_key_prepared_alloc_from_infos(&atk);
                    am.glwe_automorphism_key_prepare(&mut ap, &atk, scratch.borrow());
                    (kp, ap)
                };
                let c: &'static Ctx = Box::leak(Box::new(Ctx {
                    n,
                    rank,
                    module,
                    sk_prep,
                    sk_glwe,
                    inputs,
                    ct_a,
                    ct_b,
                    shared_ksk,
                    shared_atk,
                    glwe_infos,
                    ggsw_infos,
                    bdd: Mutex::new(None),
                }));
                g.push(c);
                c
            }

            pub fn bdd_layout(n: u32, rank: u32) -> BDDKeyLayout {
                BDDKeyLayout {
                    cbt_layout: CircuitBootstrappingKeyLayout {
                        brk_layout: BlindRotationKeyLayout {
                            n_glwe: Degree(n),
                            n_lwe: Degree(6),
                            base2k: Base2K(12),
                            k: TorusPrecision(36),
                            dnum: Dnum(2),
                            rank: Rank(rank),
                        },
                        atk_layout: GLWEAutomorphismKeyLayout {
                            n: Degree(n),
                            base2k: Base2K(11),
                            k: TorusPrecision(44),
                            rank: Rank(rank),
                            dnum: Dnum(3),
                            dsize: Dsize(1),
                        },
                        tsk_layout: GGLWEToGGSWKeyLayout {
                            n: Degree(n),
                            base2k: Base2K(10),
                            k: TorusPrecision(40),
                            rank: Rank(rank),
                            dnum: Dnum(3),
                            dsize: Dsize(1),
                        },
                    },
                    // as in the crate's own parameters: a rank > 1 input is first switched down to rank 1
                    ks_glwe_layout: if rank > 1 {
                        Some(poulpy_core::layouts::GLWESwitchingKeyLayout {
                            n: Degree(n),
                            base2k: Base2K(4),
                            k: TorusPrecision(20),
                            rank_in: Rank(rank),
                            rank_out: Rank(1),
                            dnum: Dnum(3),
                            dsize: Dsize(1),
                        })
                    } else {
                        None
                    },
                    ks_lwe_layout: GLWEToLWEKeyLayout {
                        n: Degree(n),
                        base2k: Base2K(4),
                        k: TorusPrecision(16),
                        rank_in: Rank(1),
                        dnum: Dnum(3),
                    },
                }
            }

            pub fn bdd_ctx(c: &'static Ctx) -> &'static BddCtx {
                let mut g = c.bdd.lock().unwrap_or_else(|e| e.into_inner());
                if let Some(b) = *g {
                    return b;
                }
                let b: &'static BddCtx = Box::leak(make_bdd_ctx(c));
                *g = Some(b);
                b
            }

            /// A private, never shared before, key bundle (lazily filled caches inside a key would
            /// otherwise survive from run to run and hide first-touch effects).
            pub fn make_bdd_ctx(c: &'static Ctx) -> Box<BddCtx> {
                let module = &c.module;
                let mut source_xs = Source::new([11u8; 32]);
                let mut source_xa = Source::new([12u8; 32]);
                let mut source_xe = Source::new([13u8; 32]);
                let mut scratch: ScratchOwned<BE> = ScratchOwned::alloc(1 << 22);
                let block_size = 3usize;
                let mut sk_lwe: LWESecret<Vec<u8>> = LWESecret::alloc(Degree(6));
                sk_lwe.fill_binary_block(block_size, &mut source_xs);
                let layout = bdd_layout(c.n, c.rank);
                let mut key: BDDKey<Vec<u8>, CGGI> = BDDKey::alloc_from_infos(&layout);
                let enc = BDDEncryptionInfos::from_default_sigma(&layout).unwrap();
                key.encrypt_sk(module, &sk_lwe, &c.sk_glwe, &enc, &mut source_xe, &mut source_xa, scratch.borrow());
                let mut prepared: BDDKeyPrepared<DeviceBuf<BE>, CGGI, BE> = BDDKeyPrepared::alloc_from_infos(module, &layout);
                prepared.prepare(module, &key, scratch.borrow());
                let genc = EncryptionLayout::new_from_default_sigma(c.glwe_infos).unwrap();
                let mut word8: FheUint<Vec<u8>, u8> = FheUint::alloc_from_infos(&c.glwe_infos);
                word8.encrypt_sk(module, 0x5Bu8, &c.sk_prep, &genc, &mut source_xe, &mut source_xa, scratch.borrow());
                let mut word16: FheUint<Vec<u8>, u16> = FheUint::alloc_from_infos(&c.glwe_infos);
                if c.n >= 16 {
                    word16.encrypt_sk(module, 0xC35Au16, &c.sk_prep, &genc, &mut source_xe, &mut source_xa, scratch.borrow());
                }
                let mut word32: FheUint<Vec<u8>, u32> = FheUint::alloc_from_infos(&c.glwe_infos);
                if c.n >= 32 {
                    word32.encrypt_sk(module, 0x9E37_79B9u32, &c.sk_prep, &genc, &mut source_xe, &mut source_xa, scratch.borrow());
                }
                Box::new(BddCtx {
                    layout,
                    key: prepared,
                    word8,
                    word16,
                    word32,
                    block_size,
                })
            }

            fn inputs_hash(c: &Ctx) -> u64 {
                let mut h = 0u64;
                for i in 0..8 {
                    let bit = c.inputs.get_bit(i);
                    let d: &[u8] = bit.data().data();
                    h = crate::util::fnv_mix(h, crate::util::fnv(d));
                }
                h
            }

            /// One fixed computation through the module handle: its bytes must never change.
            /// Raw bytes of the Module value and of the backend handle struct it points to (not of the tables the
            /// handle owns): the property's state anchor says the handle stays immutable after construction, so any
            /// interior mutation - a lazily filled memo, a busy flag left set, a cache slot - shows here.
            pub fn module_struct_hash(m: &Module<BE>) -> u64 {
                if cfg!(miri) {
                    // padding bytes are uninitialised for Miri
                    return 0;
                }
                let a = unsafe { std::slice::from_raw_parts(m as *const Module<BE> as *const u8, std::mem::size_of::<Module<BE>>()) };
                let b = unsafe {
                    std::slice::from_raw_parts(m.as_mut_ptr() as *const u8, std::mem::size_of::<<BE as poulpy_hal::layouts::Backend>::Handle>())
                };
                crate::util::fnv_mix(crate::util::fnv(a), crate::util::fnv(b))
            }

            fn module_fingerprint(c: &Ctx) -> u64 {
                use poulpy_core::GLWEEncryptSk;
                let mut ct: GLWE<Vec<u8>> = GLWE::alloc_from_infos(&c.glwe_infos);
                let enc = EncryptionLayout::new_from_default_sigma(c.glwe_infos).unwrap();
                let mut xa = Source::new([7u8; 32]);
                let mut xe = Source::new([8u8; 32]);
                let mut scratch: ScratchOwned<BE> = ScratchOwned::alloc(1 << 16);
                c.module.glwe_encrypt_zero_sk(&mut ct, &c.sk_prep, &enc, &mut xe, &mut xa, scratch.borrow());
                crate::util::fnv_mix(crate::util::fnv(&ct.data().data), module_struct_hash(&c.module))
            }

            crate::c12::ops::core_ops_impl!(BE);
            crate::c12::ops2::core_ops2_impl!(BE);
            crate::c12::ops3::core_ops3_impl!(BE);
            crate::c12::ops4::core_ops4_impl!(BE);
            crate::c12::ops5::core_ops5_impl!(BE);
            crate::c12::ops6::core_ops6_impl!(BE);

            pub struct Ops;
            pub static B: Ops = Ops;

            impl BackendOps for Ops {
                fn name(&self) -> &'static str {
                    $name
                }

                fn eval(&self, spec: &EvalSpec, w: &Window, cfg: Option<sched::Config>) -> RunResult {
                    let c = ctx(spec.n, spec.rank);
                    let circuit = SimCircuit::generate(spec.circuit_seed, spec.outputs, 8);
                    let out_len = spec.outputs + spec.out_extra;
                    let mut out: Vec<GLWE<Vec<u8>>> = (0..out_len).map(|_| GLWE::alloc_from_infos(&c.glwe_infos)).collect();
                    if spec.out_poison != 0 {
                        let mut r = Rng::new(spec.out_poison);
                        for o in out.iter_mut() {
                            r.fill(&mut o.data_mut().data);
                        }
                    }
                    let max_state = circuit.max_state_size();
                    let per_thread = c.module.execute_bdd_circuit_tmp_bytes(&out[0], max_state, &c.ggsw_infos);
                    let declared = spec.threads * per_thread;
                    let generous = spec.threads * per_thread.next_multiple_of(64) + 4096;
                    let mut arena = Arena::new(w, declared, generous);
                    let arange = arena.range();
                    let h0 = inputs_hash(c);
                    let f0 = module_fingerprint(c);
                    let threads = spec.threads;
                    let mut body = || {
                        let scratch: &mut Scratch<BE> = Scratch::<BE>::from_bytes(arena.window());
                        c.module.execute_bdd_circuit_multi_thread(threads, &mut out, &c.inputs, &circuit, scratch);
                    };
                    let (r, rep) = match cfg {
                        Some(mut cfg) => {
                            cfg.arena = Some(arange);
                            let (r, rep) = sched::run(cfg, &mut body);
                            (r, Some(rep))
                        }
                        None => (crate::util::catch(&mut body), None),
                    };
                    let res = r.map(|_| RunOut {
                        outs: out.iter().map(|o| o.data().data.clone()).collect(),
                        declared,
                        per_thread,
                        window_len: arena.len,
                        canary_ok: arena.canaries_intact(),
                        inputs_unchanged: inputs_hash(c) == h0,
                        module_fingerprint_same: module_fingerprint(c) == f0,
                        items: spec.outputs,
                    });
                    (res, rep)
                }

                fn prep(&self, spec: &PrepSpec, w: &Window, cfg: Option<sched::Config>) -> RunResult {
                    let c = ctx(spec.n, spec.rank.max(1));
                    let b = bdd_ctx(c);
                    let h0 = inputs_hash(c);
                    let f0 = module_fingerprint(c);
                    macro_rules! go {
                        ($t:ty, $word:expr) => {{
                            let mut res: FheUintPrepared<DeviceBuf<BE>, $t, BE> = FheUintPrepared::alloc_from_infos(&c.module, &c.ggsw_infos);
                            {
                                // an already populated receiver: bits outside the prepared window must end up
                                // exactly as the single-threaded call leaves them, not merely "zero because fresh"
                                let enc = EncryptionLayout::new_from_default_sigma(c.ggsw_infos).unwrap();
                                let mut big: ScratchOwned<BE> = ScratchOwned::alloc(1 << 20);
                                res.encrypt_sk(
                                    &c.module,
                                    <$t>::MAX ^ 0x35,
                                    &c.sk_prep,
                                    &enc,
                                    &mut Source::new([21u8; 32]),
                                    &mut Source::new([22u8; 32]),
                                    big.borrow(),
                                );
                            }
                            let per_thread = c.module.fhe_uint_prepare_tmp_bytes(b.block_size, 1, &res, $word, &b.layout);
                            let declared = spec.threads * per_thread;
                            let generous = spec.threads * per_thread.next_multiple_of(64) + 4096;
                            let mut arena = Arena::new(w, declared, generous);
                            let arange = arena.range();
                            let mut body = || {
                                let scratch: &mut Scratch<BE> = Scratch::<BE>::from_bytes(arena.window());
                                // one thread = the single-threaded entry point (the reference of the EQ oracle)
                                match (spec.via_struct, spec.threads) {
                                    (false, 1) => c.module.fhe_uint_prepare_custom(&mut res, $word, spec.bit_start, spec.bit_count, &b.key, scratch),
                                    (false, t) => c.module.fhe_uint_prepare_custom_multi_thread(
                                        t,
                                        &mut res,
                                        $word,
                                        spec.bit_start,
                                        spec.bit_count,
                                        &b.key,
                                        scratch,
                                    ),
                                    (true, 1) => res.prepare_custom(&c.module, $word, spec.bit_start, spec.bit_count, &b.key, scratch),
                                    (true, t) => res.prepare_custom_multi_thread(t, &c.module, $word, spec.bit_start, spec.bit_count, &b.key, scratch),
                                }
                            };
                            let (r, rep) = match cfg {
                                Some(mut cfg) => {
                                    cfg.arena = Some(arange);
                                    let (r, rep) = sched::run(cfg, &mut body);
                                    (r, Some(rep))
                                }
                                None => (crate::util::catch(&mut body), None),
                            };
                            let bits = <$t>::BITS as usize;
                            let out = r.map(|_| RunOut {
                                outs: (0..bits)
                                    .map(|i| {
                                        let g = res.get_bit(i);
                                        let d: &[u8] = g.data().data();
                                        d.to_vec()
                                    })
                                    .collect(),
                                declared,
                                per_thread,
                                window_len: arena.len,
                                canary_ok: arena.canaries_intact(),
                                inputs_unchanged: inputs_hash(c) == h0,
                                module_fingerprint_same: module_fingerprint(c) == f0,
                                items: spec.bit_count,
                            });
                            (out, rep)
                        }};
                    }
                    match spec.word_bits {
                        32 => go!(u32, &b.word32),
                        16 => go!(u16, &b.word16),
                        _ => go!(u8, &b.word8),
                    }
                }

                fn core_op(&self, op: &str, shape: &crate::c12::ops::Shape, w: &Window) -> RunResult {
                    if let Some(r) = ops6::core_op6(op, shape, w) {
                        return r;
                    }
                    if let Some(r) = ops5::core_op5(op, shape, w) {
                        return r;
                    }
                    if let Some(r) = ops4::core_op4(op, shape, w) {
                        return r;
                    }
                    if let Some(r) = ops3::core_op3(op, shape, w) {
                        return r;
                    }
                    match ops2::core_op2(op, shape, w) {
                        Some(r) => r,
                        None => ops::core_op(op, shape, w),
                    }
                }
                fn module_state(&self, n: u32) -> u64 {
                    module_struct_hash(&ctx(n, 1).module)
                }
                fn core_ops(&self) -> &'static [&'static str] {
                    static ALL: std::sync::OnceLock<Vec<&'static str>> = std::sync::OnceLock::new();
                    ALL.get_or_init(|| ops::OPS.iter().chain(ops2::OPS2.iter()).chain(ops3::OPS3.iter()).chain(ops4::OPS4.iter()).chain(ops5::OPS5.iter()).chain(ops6::OPS6.iter()).copied().collect())
                }

                fn word(&self, spec: &WordSpec, w: &Window, cfg: Option<sched::Config>) -> RunResult {
                    use poulpy_bin_fhe::bdd_arithmetic::{Add, And, Identity, Or, Sll, Slt, Sltu, Sra, Srl, Sub, Xor};
                    let c = ctx(spec.n, 1);
                    let b = bdd_ctx(c);
                    let m = &c.module;
                    let h0 = inputs_hash(c);
                    let f0 = module_fingerprint(c);
                    let mut big: ScratchOwned<BE> = ScratchOwned::alloc(1 << 22);
                    let enc = EncryptionLayout::new_from_default_sigma(c.ggsw_infos).unwrap();
                    let mut a: FheUintPrepared<DeviceBuf<BE>, u32, BE> = FheUintPrepared::alloc_from_infos(m, &c.ggsw_infos);
                    let mut bb: FheUintPrepared<DeviceBuf<BE>, u32, BE> = FheUintPrepared::alloc_from_infos(m, &c.ggsw_infos);
                    a.encrypt_sk(m, spec.a, &c.sk_prep, &enc, &mut Source::new([31u8; 32]), &mut Source::new([32u8; 32]), big.borrow());
                    bb.encrypt_sk(m, spec.b, &c.sk_prep, &enc, &mut Source::new([33u8; 32]), &mut Source::new([34u8; 32]), big.borrow());
                    let mut res: FheUint<Vec<u8>, u32> = FheUint::alloc_from_infos(&c.glwe_infos);
                    let t = spec.threads;
                    macro_rules! two {
                        ($single:ident, $multi:ident, $tb:ident, $mtb:ident) => {{
                            if t > 1 {
                                let d = res.$mtb(m, t, &c.glwe_infos, &c.ggsw_infos, &b.key);
                                (d, Box::new(|s: &mut Scratch<BE>, res: &mut FheUint<Vec<u8>, u32>| res.$multi(t, m, &a, &bb, &b.key, s)) as Box<dyn Fn(&mut Scratch<BE>, &mut FheUint<Vec<u8>, u32>)>)
                            } else {
                                let d = res.$tb(m, &c.glwe_infos, &c.ggsw_infos, &b.key);
                                (d, Box::new(|s: &mut Scratch<BE>, res: &mut FheUint<Vec<u8>, u32>| res.$single(m, &a, &bb, &b.key, s)) as Box<dyn Fn(&mut Scratch<BE>, &mut FheUint<Vec<u8>, u32>)>)
                            }
                        }};
                    }
                    let (declared, call): (usize, Box<dyn Fn(&mut Scratch<BE>, &mut FheUint<Vec<u8>, u32>)>) = match spec.op.as_str() {
                        "add" => two!(add, add_multi_thread, add_tmp_bytes, add_multi_thread_tmp_bytes),
                        "sub" => two!(sub, sub_multi_thread, sub_tmp_bytes, sub_multi_thread_tmp_bytes),
                        "and" => two!(and, and_multi_thread, and_tmp_bytes, and_multi_thread_tmp_bytes),
                        "or" => two!(or, or_multi_thread, or_tmp_bytes, or_multi_thread_tmp_bytes),
                        "xor" => two!(xor, xor_multi_thread, xor_tmp_bytes, xor_multi_thread_tmp_bytes),
                        "sll" => two!(sll, sll_multi_thread, sll_tmp_bytes, sll_multi_thread_tmp_bytes),
                        "srl" => two!(srl, srl_multi_thread, srl_tmp_bytes, srl_multi_thread_tmp_bytes),
                        "sra" => two!(sra, sra_multi_thread, sra_tmp_bytes, sra_multi_thread_tmp_bytes),
                        "slt" => two!(slt, slt_multi_thread, slt_tmp_bytes, slt_multi_thread_tmp_bytes),
                        "sltu" => two!(sltu, sltu_multi_thread, sltu_tmp_bytes, sltu_multi_thread_tmp_bytes),
                        _ => {
                            // one-word wrapper: identity has no dedicated size query; the two-word one of `add` dominates it
                            let d = res.add_multi_thread_tmp_bytes(m, t.max(1), &c.glwe_infos, &c.ggsw_infos, &b.key);
                            if t > 1 {
                                (d, Box::new(|s: &mut Scratch<BE>, res: &mut FheUint<Vec<u8>, u32>| res.identity_multi_thread(t, m, &a, &b.key, s)))
                            } else {
                                (d, Box::new(|s: &mut Scratch<BE>, res: &mut FheUint<Vec<u8>, u32>| res.identity(m, &a, &b.key, s)))
                            }
                        }
                    };
                    let generous = declared.next_multiple_of(64) + 64 * t + 4096;
                    let mut arena = Arena::new(w, declared, generous);
                    let arange = arena.range();
                    let mut body = || {
                        let scratch: &mut Scratch<BE> = Scratch::<BE>::from_bytes(arena.window());
                        call(scratch, &mut res);
                    };
                    let (r, rep) = match cfg {
                        Some(mut cfg) => {
                            cfg.arena = Some(arange);
                            let (r, rep) = sched::run(cfg, &mut body);
                            (r, Some(rep))
                        }
                        None => (crate::util::catch(&mut body), None),
                    };
                    let bytes: Vec<u8> = {
                        use poulpy_core::layouts::GLWEToRef;
                        let g = res.to_ref();
                        let d: &[u8] = g.data().data;
                        d.to_vec()
                    };
                    let out = r.map(|_| RunOut {
                        outs: vec![bytes],
                        declared,
                        per_thread: declared,
                        window_len: arena.len,
                        canary_ok: arena.canaries_intact(),
                        inputs_unchanged: inputs_hash(c) == h0,
                        module_fingerprint_same: module_fingerprint(c) == f0,
                        items: 32,
                    });
                    (out, rep)
                }

                fn shared(&self, spec: &SharedSpec, cfg: Option<sched::Config>) -> RunResult {
                    shared_impl(spec, cfg, false)
                }
                fn shared_unsync(&self, spec: &SharedSpec) -> Result<RunOut, String> {
                    shared_impl(spec, None, true).0
                }
            }

            fn shared_impl(spec: &SharedSpec, cfg: Option<sched::Config>, unsync: bool) -> RunResult {
                {
                    use poulpy_bin_fhe::bdd_arithmetic::Cmux;
                    use poulpy_core::layouts::GLWEPlaintext;
                    use poulpy_core::{GLWEDecrypt, GLWEEncryptSk};
                    let c = ctx(spec.n, 1);
                    let fresh_module: Option<Module<BE>> = if spec.fresh_module { Some(Module::<BE>::new(c.n as u64)) } else { None };
                    let module: &Module<BE> = fresh_module.as_ref().unwrap_or(&c.module);
                    let fresh_key = if spec.with_prepare { Some(make_bdd_ctx(c)) } else { None };
                    let b: Option<&BddCtx> = fresh_key.as_deref();
                    let h0 = inputs_hash(c);
                    let f0 = module_fingerprint(c);
                    let ct_hash0 = crate::util::fnv(&c.ct_a.data().data) ^ crate::util::fnv(&c.ct_b.data().data);
                    // op lists are a function of (ops_seed, thread index) only
                    let lists: Vec<Vec<(u64, u64)>> = (0..spec.threads)
                        .map(|t| {
                            let mut r = Rng::new(crate::prng::mix(spec.ops_seed, 0x5A, t as u64));
                            (0..spec.ops_per_thread)
                                .map(|_| {
                                    let k = r.below(if spec.with_prepare { 10 } else { 9 });
                                    (k, r.next())
                                })
                                .collect()
                        })
                        .collect();
                    // every thread's scratch lives for the whole scenario, so that distinct threads never
                    // legitimately see the same addresses (heap reuse would blind the DISJOINT oracle)
                    let scratch_bytes: usize = if spec.with_prepare { 1 << 22 } else { 1 << 20 };
                    let mut scratches: Vec<ScratchOwned<BE>> = (0..spec.threads).map(|_| ScratchOwned::alloc(scratch_bytes)).collect();
                    let run_list = |list: &Vec<(u64, u64)>, scratch: &mut ScratchOwned<BE>| -> u64 {
                        let mut acc = 0u64;
                        for (k, arg) in list {
                            let h = match k {
                                0 => {
                                    let mut ct: GLWE<Vec<u8>> = GLWE::alloc_from_infos(&c.glwe_infos);
                                    let enc = EncryptionLayout::new_from_default_sigma(c.glwe_infos).unwrap();
                                    let mut xa = Source::new([(*arg & 0xff) as u8; 32]);
                                    let mut xe = Source::new([((*arg >> 8) & 0xff) as u8; 32]);
                                    module.glwe_encrypt_zero_sk(&mut ct, &c.sk_prep, &enc, &mut xe, &mut xa, scratch.borrow());
                                    crate::util::fnv(&ct.data().data)
                                }
                                1 => {
                                    let mut pt: GLWEPlaintext<Vec<u8>> = GLWEPlaintext::alloc_from_infos(&c.glwe_infos);
                                    let src = if arg & 1 == 0 { &c.ct_a } else { &c.ct_b };
                                    module.glwe_decrypt(src, &mut pt, &c.sk_prep, scratch.borrow());
                                    crate::util::fnv(&pt.data().data)
                                }
                                2 => {
                                    let mut res: GLWE<Vec<u8>> = GLWE::alloc_from_infos(&c.glwe_infos);
                                    let bit = c.inputs.get_bit((*arg % 8) as usize);
                                    module.cmux(&mut res, &c.ct_a, &c.ct_b, &bit, scratch.borrow());
                                    crate::util::fnv(&res.data().data)
                                }
                                3 => {
                                    let circuit = SimCircuit::generate(*arg, 1 + (*arg % 3) as usize, 8);
                                    let mut out: Vec<GLWE<Vec<u8>>> =
                                        (0..circuit.bits.len()).map(|_| GLWE::alloc_from_infos(&c.glwe_infos)).collect();
                                    module.execute_bdd_circuit(&mut out, &c.inputs, &circuit, scratch.borrow());
                                    out.iter().fold(0u64, |a, o| crate::util::fnv_mix(a, crate::util::fnv(&o.data().data)))
                                }
                                4 => {
                                    let m2: Module<BE> = Module::<BE>::new(c.n as u64);
                                    let mut ct: GLWE<Vec<u8>> = GLWE::alloc_from_infos(&c.glwe_infos);
                                    let enc = EncryptionLayout::new_from_default_sigma(c.glwe_infos).unwrap();
                                    let mut xa = Source::new([5u8; 32]);
                                    let mut xe = Source::new([6u8; 32]);
                                    m2.glwe_encrypt_zero_sk(&mut ct, &c.sk_prep, &enc, &mut xe, &mut xa, scratch.borrow());
                                    crate::util::fnv(&ct.data().data)
                                }
                                5 => {
                                    use poulpy_core::GLWEKeyswitch;
                                    let mut res: GLWE<Vec<u8>> = GLWE::alloc_from_infos(&c.glwe_infos);
                                    let src = if arg & 1 == 0 { &c.ct_a } else { &c.ct_b };
                                    module.glwe_keyswitch(&mut res, src, &c.shared_ksk, scratch.borrow());
                                    crate::util::fnv(&res.data().data)
                                }
                                6 => {
                                    use poulpy_core::GLWEExternalProduct;
                                    let mut res: GLWE<Vec<u8>> = GLWE::alloc_from_infos(&c.glwe_infos);
                                    let bit = c.inputs.get_bit((*arg % 8) as usize);
                                    module.glwe_external_product(&mut res, &c.ct_b, &bit, scratch.borrow());
                                    crate::util::fnv(&res.data().data)
                                }
                                7 => {
                                    use poulpy_core::GLWEAutomorphism;
                                    let mut res: GLWE<Vec<u8>> = GLWE::alloc_from_infos(&c.glwe_infos);
                                    module.glwe_automorphism(&mut res, &c.ct_a, &c.shared_atk, scratch.borrow());
                                    crate::util::fnv(&res.data().data)
                                }
                                8 => {
                                    use poulpy_core::GLWENormalize;
                                    let mut infos = c.glwe_infos;
                                    infos.base2k = Base2K(9 + (*arg % 5) as u32);
                                    let mut res: GLWE<Vec<u8>> = GLWE::alloc_from_infos(&infos);
                                    module.glwe_normalize(&mut res, &c.ct_a, scratch.borrow());
                                    crate::util::fnv(&res.data().data)
                                }
                                _ => {
                                    let b = b.unwrap();
                                    // workloads with different (legal) result layouts share one prepared key
                                    let mut gi = c.ggsw_infos;
                                    match (*arg >> 8) % 3 {
                                        1 => gi.dnum = Dnum(1),
                                        2 => {
                                            gi.base2k = Base2K(12);
                                            gi.k = TorusPrecision(36);
                                        }
                                        _ => {}
                                    }
                                    let mut res: FheUintPrepared<DeviceBuf<BE>, u8, BE> =
                                        FheUintPrepared::alloc_from_infos(module, &gi);
                                    module
                                        .fhe_uint_prepare_custom(&mut res, &b.word8, (*arg % 8) as usize, 1, &b.key, scratch.borrow());
                                    (0..8).fold(0u64, |a, i| {
                                        let g = res.get_bit(i);
                                        let d: &[u8] = g.data().data();
                                        crate::util::fnv_mix(a, crate::util::fnv(d))
                                    })
                                }
                            };
                            acc = crate::util::fnv_mix(acc, h);
                        }
                        acc
                    };
                    let mut results: Vec<u64> = vec![0; spec.threads];
                    let (r, rep) = match cfg {
                        None if unsync => {
                            let lists = &lists;
                            let run_list = &run_list;
                            let r = crate::util::catch(|| {
                                std::thread::scope(|scope| {
                                    for (t, (slot, scratch)) in results.iter_mut().zip(scratches.iter_mut()).enumerate() {
                                        scope.spawn(move || {
                                            *slot = run_list(&lists[t], scratch);
                                        });
                                    }
                                });
                            });
                            (r, None)
                        }
                        None => {
                            let r = crate::util::catch(|| {
                                for (t, l) in lists.iter().enumerate() {
                                    results[t] = run_list(l, &mut scratches[t]);
                                }
                            });
                            (r, None)
                        }
                        Some(cfg) => {
                            let lists = &lists;
                            let run_list = &run_list;
                            let results_ref = &mut results;
                            let scratches_ref = &mut scratches;
                            let (r, rep) = sched::run(cfg, move || {
                                std::thread::scope(|scope| {
                                    for (t, (slot, scratch)) in results_ref.iter_mut().zip(scratches_ref.iter_mut()).enumerate() {
                                        let tok = sched::spawn_prepare();
                                        scope.spawn(move || {
                                            sched::thread_begin(tok);
                                            struct G;
                                            impl Drop for G {
                                                fn drop(&mut self) {
                                                    sched::thread_end();
                                                }
                                            }
                                            let _g = G;
                                            sched::yield_point(sched::SITE_HARNESS, t, t);
                                            *slot = run_list(&lists[t], scratch);
                                        });
                                        sched::after_spawn(tok);
                                    }
                                    sched::join_begin();
                                });
                            });
                            (r, Some(rep))
                        }
                    };
                    let ct_hash1 = crate::util::fnv(&c.ct_a.data().data) ^ crate::util::fnv(&c.ct_b.data().data);
                    let res = r.map(|_| RunOut {
                        outs: results.iter().map(|h| h.to_le_bytes().to_vec()).collect(),
                        declared: 0,
                        per_thread: 0,
                        window_len: 0,
                        canary_ok: true,
                        inputs_unchanged: inputs_hash(c) == h0 && ct_hash0 == ct_hash1,
                        module_fingerprint_same: module_fingerprint(c) == f0,
                        items: spec.threads,
                    });
                    (res, rep)
                }
            }
        }
    };
}

backend_impl!(fft64_ref, poulpy_cpu_ref::FFT64Ref, "FFT64Ref");
backend_impl!(ntt120_ref, poulpy_cpu_ref::NTT120Ref, "NTT120Ref");
backend_impl!(fft64_avx, poulpy_cpu_avx::FFT64Avx, "FFT64Avx");
backend_impl!(ntt120_avx, poulpy_cpu_avx::NTT120Avx, "NTT120Avx");
