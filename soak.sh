#!/bin/bash
# Soak run for `vp run`: builds the simulator in the snapshot and runs the quick tier of every
# check over a range of seeds; prints one summary line per (seed, check) and any alarm.
# usage: ./soak.sh <first_seed> <last_seed> [tier]
root="$(cd "$(dirname "$0")" && pwd)"
export VERIF_ROOT="$root"
export CARGO_TARGET_DIR="$root/target_soak"
(cd "$root/sim" && CARGO_NET_OFFLINE=true cargo build --profile sim >/dev/null 2>&1) || { echo "build failed"; exit 2; }
bin="$CARGO_TARGET_DIR/sim/poulpy-sim"
for s in $(seq "$1" "$2"); do
  for p in C12 C18 C20; do
    VERIF_SEED=$s "$bin" check $p --tier "${3:-quick}" 2>&1 | grep -E "^VIOLATION|^  oracle|^$p:|HARNESS" | sed "s/^/seed=$s /" | cut -c1-300
  done
done
